#!/venv/bin/python
"""Behaviour-preserving rewrites of /repo/bionumpy, used to measure the false-alarm side of the checks: every check must stay silent
(exit 0, no VIOLATION) on each variant, because none of them changes what the code does.

  rename     every function-local variable (not parameters, not closure/global names) gets a new name
  tempret    `return <expr>` becomes `_rv = <expr>; return _rv`
  ifflip     `if c: A else: B` becomes `if not c: B else: A`
  identity   parse + unparse only (drops comments, normalises layout)
  nodoc      docstrings of functions removed (module/class docstrings kept: __doc__ of classes is read by nothing, but keep it simple)

Usage:  refactor_variants.py make <transform> <dest-root>      write <dest-root>/bionumpy
        refactor_variants.py run  [transform ...]              make each in /dev/shm, run all claimed checks on it, print a table, clean up
        refactor_variants.py suite <transform>                 make it in /dev/shm together with tests, run the pinned suite (validates the rewrite itself)
Nothing is written to /repo or kept after the run."""
from __future__ import annotations
import ast
import builtins
import json
import os
import shutil
import subprocess
import sys
import tempfile

V = os.path.dirname(os.path.dirname(os.path.abspath(__file__)))
REPO = os.environ.get("BNPSA_REPO", "/repo")
TRANSFORMS = ["identity", "rename", "tempret", "ifflip", "nodoc", "compvars", "elseify", "elimtemps", "guardswap", "addassert", "kwreorder",
              "cmpflip", "msgs", "typehints", "tuplelist", "lenzero", "literals", "ifexp2stmt", "methodorder"]
SCOPES = (ast.FunctionDef, ast.AsyncFunctionDef, ast.Lambda, ast.ListComp, ast.SetComp, ast.DictComp, ast.GeneratorExp, ast.ClassDef)


def _bound_here(scope) -> set:
    """names bound directly in this scope (not in nested scopes)"""
    out = set()

    def targets(n):
        for x in ast.walk(n):
            if isinstance(x, ast.Name) and isinstance(x.ctx, (ast.Store, ast.Del)):
                out.add(x.id)

    def visit(n, top=False):
        if not top and isinstance(n, SCOPES):
            if isinstance(n, (ast.FunctionDef, ast.AsyncFunctionDef, ast.ClassDef)):
                out.add(n.name)
                for d in n.decorator_list:
                    visit(d)
            if isinstance(n, (ast.ListComp, ast.SetComp, ast.DictComp, ast.GeneratorExp)):
                visit(n.generators[0].iter)      # evaluated in the enclosing scope
            return
        if isinstance(n, ast.Name) and isinstance(n.ctx, (ast.Store, ast.Del)):
            out.add(n.id)
        if isinstance(n, (ast.Import, ast.ImportFrom)):
            for a in n.names:
                out.add((a.asname or a.name).split(".")[0])
        if isinstance(n, ast.ExceptHandler) and n.name:
            out.add(n.name)
        if isinstance(n, (ast.Global, ast.Nonlocal)):
            out.update(n.names)
        if hasattr(ast, "MatchAs") and isinstance(n, (ast.MatchAs, ast.MatchStar)) and n.name:
            out.add(n.name)
        for c in ast.iter_child_nodes(n):
            visit(c)
    if isinstance(scope, ast.Lambda):
        return out
    if isinstance(scope, (ast.ListComp, ast.SetComp, ast.DictComp, ast.GeneratorExp)):
        for g in scope.generators:
            targets(g.target)
        # walrus inside a comprehension binds in the enclosing function; leave such names alone there
        return out
    for st in scope.body:
        visit(st)
    return out


def _params(scope) -> set:
    if isinstance(scope, (ast.FunctionDef, ast.AsyncFunctionDef, ast.Lambda)):
        a = scope.args
        return {x.arg for x in a.posonlyargs + a.args + a.kwonlyargs} | ({a.vararg.arg} if a.vararg else set()) | ({a.kwarg.arg} if a.kwarg else set())
    return set()


def _unsafe_names(fn) -> set:
    """names bound in ways that are not ast.Name stores (we leave those alone), or declared global/nonlocal"""
    out = set()
    for n in ast.walk(fn):
        if isinstance(n, (ast.Import, ast.ImportFrom)):
            for a in n.names:
                out.add((a.asname or a.name).split(".")[0])
        elif isinstance(n, ast.ExceptHandler) and n.name:
            out.add(n.name)
        elif isinstance(n, (ast.Global, ast.Nonlocal)):
            out.update(n.names)
        elif isinstance(n, (ast.FunctionDef, ast.AsyncFunctionDef, ast.ClassDef)) and n is not fn:
            out.add(n.name)
        elif isinstance(n, ast.NamedExpr):
            out.add(n.target.id)
        elif hasattr(ast, "MatchAs") and isinstance(n, (ast.MatchAs, ast.MatchStar)) and n.name:
            out.add(n.name)
    return out


class Rename(ast.NodeTransformer):
    """rename function locals; scope-aware so that a nested scope that rebinds the name keeps its own variable"""

    def __init__(self):
        self.active = [{}]

    def _uses_dynamic(self, fn):
        return any(isinstance(n, ast.Call) and isinstance(n.func, ast.Name) and n.func.id in ("locals", "vars", "eval", "exec", "globals") for n in ast.walk(fn))

    def _enter(self, node, new_map):
        cur = dict(self.active[-1])
        for k in _bound_here(node) | _params(node):
            cur.pop(k, None)
        cur.update(new_map)
        self.active.append(cur)

    def visit_FunctionDef(self, node):
        # decorators, defaults and annotations belong to the enclosing scope
        node.decorator_list = [self.visit(d) for d in node.decorator_list]
        a = node.args
        a.defaults = [self.visit(d) for d in a.defaults]
        a.kw_defaults = [self.visit(d) if d is not None else None for d in a.kw_defaults]
        new = {}
        if not self._uses_dynamic(node):
            loc = _bound_here(node) - _params(node) - _unsafe_names(node)
            loc = {n for n in loc if not n.startswith("__")}
            new = {n: n + "_rn" for n in loc}
        self._enter(node, new)
        node.body = [self.visit(s) for s in node.body]
        self.active.pop()
        return node
    visit_AsyncFunctionDef = visit_FunctionDef

    def visit_Lambda(self, node):
        a = node.args
        a.defaults = [self.visit(d) for d in a.defaults]
        a.kw_defaults = [self.visit(d) if d is not None else None for d in a.kw_defaults]
        self._enter(node, {})
        node.body = self.visit(node.body)
        self.active.pop()
        return node

    def visit_ClassDef(self, node):
        node.decorator_list = [self.visit(d) for d in node.decorator_list]
        node.bases = [self.visit(b) for b in node.bases]
        node.keywords = [self.visit(k) for k in node.keywords]
        # class-body names are attributes: never renamed; names bound in the class body shadow nothing for nested functions
        saved = self.active
        cur = dict(self.active[-1])
        body_bound = _bound_here(node)
        self.active = saved + [{k: v for k, v in cur.items() if k not in body_bound}]
        new_body = []
        for s in node.body:
            if isinstance(s, (ast.FunctionDef, ast.AsyncFunctionDef)):
                # methods do not see class-body names: use the enclosing function's map
                self.active = saved + [cur]
                new_body.append(self.visit(s))
                self.active = saved + [{k: v for k, v in cur.items() if k not in body_bound}]
            else:
                new_body.append(self.visit(s))
        node.body = new_body
        self.active = saved
        return node

    def _comp(self, node):
        first = node.generators[0]
        first.iter = self.visit(first.iter)
        self._enter(node, {})
        first.target = self.visit(first.target)
        first.ifs = [self.visit(i) for i in first.ifs]
        for g in node.generators[1:]:
            g.iter = self.visit(g.iter)
            g.target = self.visit(g.target)
            g.ifs = [self.visit(i) for i in g.ifs]
        if isinstance(node, ast.DictComp):
            node.key = self.visit(node.key)
            node.value = self.visit(node.value)
        else:
            node.elt = self.visit(node.elt)
        self.active.pop()
        return node
    visit_ListComp = visit_SetComp = visit_DictComp = visit_GeneratorExp = _comp

    def visit_Name(self, node):
        m = self.active[-1].get(node.id)
        if m:
            node.id = m
        return node


class TempRet(ast.NodeTransformer):
    def visit_Lambda(self, node):
        return node

    def _block(self, body):
        out = []
        for s in body:
            s = self.visit(s)
            if isinstance(s, ast.Return) and s.value is not None and not isinstance(s.value, (ast.Name, ast.Constant)):
                out.append(ast.Assign(targets=[ast.Name(id="_rv", ctx=ast.Store())], value=s.value, lineno=s.lineno))
                out.append(ast.Return(value=ast.Name(id="_rv", ctx=ast.Load())))
            else:
                out.append(s)
        return out

    def generic_visit(self, node):
        for f in ("body", "orelse", "finalbody"):
            v = getattr(node, f, None)
            if isinstance(v, list) and v and isinstance(v[0], ast.stmt):
                setattr(node, f, self._block(v))
        if isinstance(node, ast.Try):
            for h in node.handlers:
                h.body = self._block(h.body)
        if hasattr(ast, "Match") and isinstance(node, ast.Match):
            for c in node.cases:
                c.body = self._block(c.body)
        return node

    def visit_FunctionDef(self, node):
        if any(isinstance(n, ast.Call) and isinstance(n.func, ast.Name) and n.func.id in ("locals", "vars") for n in ast.walk(node)):
            return node
        return self.generic_visit(node)


class IfFlip(ast.NodeTransformer):
    def visit_If(self, node):
        self.generic_visit(node)
        if node.orelse:
            t = node.test
            if isinstance(t, ast.UnaryOp) and isinstance(t.op, ast.Not):
                nt = t.operand
            else:
                nt = ast.UnaryOp(op=ast.Not(), operand=t)
            return ast.If(test=nt, body=node.orelse, orelse=node.body)
        return node


class CompVars(ast.NodeTransformer):
    """alpha-rename the variables bound by comprehensions (and lambda parameters)"""

    def __init__(self):
        self.maps = [{}]

    def _comp(self, node):
        first = node.generators[0]
        first.iter = self.visit(first.iter)
        bound = set()
        for g in node.generators:
            bound |= {x.id for x in ast.walk(g.target) if isinstance(x, ast.Name)}
        m = dict(self.maps[-1])
        m.update({b: b + "_cv" for b in bound})
        self.maps.append(m)
        first.target = self.visit(first.target)
        first.ifs = [self.visit(i) for i in first.ifs]
        for g in node.generators[1:]:
            g.iter = self.visit(g.iter)
            g.target = self.visit(g.target)
            g.ifs = [self.visit(i) for i in g.ifs]
        if isinstance(node, ast.DictComp):
            node.key = self.visit(node.key)
            node.value = self.visit(node.value)
        else:
            node.elt = self.visit(node.elt)
        self.maps.pop()
        return node
    visit_ListComp = visit_SetComp = visit_DictComp = visit_GeneratorExp = _comp

    def visit_Lambda(self, node):
        a = node.args
        a.defaults = [self.visit(d) for d in a.defaults]
        names = [x.arg for x in a.posonlyargs + a.args]       # keyword-only / star args keep their names (may be passed by keyword)
        if a.kwonlyargs or a.kwarg or a.vararg:
            names = []
        m = dict(self.maps[-1])
        m.update({n: n + "_lp" for n in names})
        for x in a.posonlyargs + a.args:
            if x.arg in names:
                x.arg = x.arg + "_lp"
        self.maps.append(m)
        node.body = self.visit(node.body)
        self.maps.pop()
        return node

    def _fn(self, node):
        # a nested function that rebinds a name hides the comprehension variable of an enclosing comprehension: cannot happen (functions are not
        # defined inside comprehensions here); function scopes start with an empty map
        self.maps.append({})
        self.generic_visit(node)
        self.maps.pop()
        return node
    visit_FunctionDef = visit_AsyncFunctionDef = _fn

    def visit_NamedExpr(self, node):
        node.value = self.visit(node.value)
        return node

    def visit_Name(self, node):
        m = self.maps[-1].get(node.id)
        if m:
            node.id = m
        return node


def _terminates(stmts):
    if not stmts:
        return False
    last = stmts[-1]
    if isinstance(last, (ast.Return, ast.Raise, ast.Continue, ast.Break)):
        return True
    if isinstance(last, ast.If) and last.orelse:
        return _terminates(last.body) and _terminates(last.orelse)
    return False


class Elseify(ast.NodeTransformer):
    """`if c: ...return\n rest` -> `if c: ...return\n else: rest`"""

    def _block(self, body):
        body = [self.visit(s) for s in body]
        for i, s in enumerate(body[:-1]):
            if isinstance(s, ast.If) and not s.orelse and _terminates(s.body) and not any(isinstance(x, (ast.FunctionDef, ast.ClassDef, ast.Global, ast.Nonlocal)) for x in body[i + 1:]):
                s.orelse = self._block(body[i + 1:])
                return body[:i + 1]
        return body

    def generic_visit(self, node):
        for f in ("body", "orelse", "finalbody"):
            v = getattr(node, f, None)
            if isinstance(v, list) and v and isinstance(v[0], ast.stmt):
                setattr(node, f, self._block(v))
        if isinstance(node, ast.Try):
            for h in node.handlers:
                h.body = self._block(h.body)
        return node


class ElimTemps(ast.NodeTransformer):
    """inline locals that are assigned once and read once in the directly following statement (before any call) - the inverse of tempret"""

    def visit_FunctionDef(self, node):
        self.generic_visit(node)
        sys.path.insert(0, V)
        from bnpsa import normalize
        normalize.inline_fresh_temps(node, [])
        return node
    visit_AsyncFunctionDef = visit_FunctionDef


class AddAssert(ast.NodeTransformer):
    """an always-true assertion at the start of every function and after every assignment to a local in the main line"""

    def visit_FunctionDef(self, node):
        self.generic_visit(node)
        i = 1 if node.body and isinstance(node.body[0], ast.Expr) and isinstance(node.body[0].value, ast.Constant) and isinstance(node.body[0].value.value, str) else 0
        node.body.insert(i, ast.Assert(test=ast.Constant(value=True), msg=None))
        return node
    visit_AsyncFunctionDef = visit_FunctionDef


class KwReorder(ast.NodeTransformer):
    """keyword arguments of calls in reverse order (evaluation order of the argument expressions changes; they are side-effect free here)"""

    def visit_Call(self, node):
        self.generic_visit(node)
        if len(node.keywords) > 1 and all(k.arg for k in node.keywords) and all(isinstance(k.value, (ast.Name, ast.Constant, ast.Attribute)) for k in node.keywords):
            node.keywords = list(reversed(node.keywords))
        return node


class CmpFlip(ast.NodeTransformer):
    """`a < b` -> `b > a` (and <=, >=) for every single ordering comparison whose operands are side-effect free"""
    MIRROR = {ast.Lt: ast.Gt, ast.Gt: ast.Lt, ast.LtE: ast.GtE, ast.GtE: ast.LtE}

    def visit_Compare(self, node):
        self.generic_visit(node)
        if len(node.ops) == 1 and type(node.ops[0]) in self.MIRROR and not any(isinstance(x, (ast.Call, ast.Await, ast.Yield, ast.NamedExpr)) for o in (node.left, node.comparators[0]) for x in ast.walk(o)) \
                and not any(isinstance(o, ast.Constant) and isinstance(o.value, (str, bytes)) for o in (node.left, node.comparators[0])):
            return ast.Compare(left=node.comparators[0], ops=[self.MIRROR[type(node.ops[0])]()], comparators=[node.left])
        return node


class Msgs(ast.NodeTransformer):
    """the text of exception messages is reworded (constant strings directly given to the exception raised)"""

    def visit_Raise(self, node):
        if isinstance(node.exc, ast.Call):
            for i, a in enumerate(node.exc.args):
                if isinstance(a, ast.Constant) and isinstance(a.value, str) and a.value:
                    node.exc.args[i] = ast.Constant(value="bionumpy: " + a.value)
        return node


class TypeHints(ast.NodeTransformer):
    """unannotated parameters get the annotation `object`, unannotated results `-> object` (annotations are not evaluated for behaviour)"""

    def visit_FunctionDef(self, node):
        self.generic_visit(node)
        if any(isinstance(d, ast.Name) and d.id in ("bnpdataclass", "dataclass") for d in node.decorator_list):
            return node
        for a in node.args.posonlyargs + node.args.args + node.args.kwonlyargs:
            if a.annotation is None and a.arg not in ("self", "cls"):
                a.annotation = ast.Name(id="object", ctx=ast.Load())
        return node
    visit_AsyncFunctionDef = visit_FunctionDef


class TupleList(ast.NodeTransformer):
    """the sequence argument of np.concatenate / hstack / vstack / stack / lexsort / column_stack written as the other literal kind (list <-> tuple)"""
    FUNCS = {"np.concatenate", "np.hstack", "np.vstack", "np.stack", "np.column_stack"}

    def visit_Call(self, node):
        self.generic_visit(node)
        if ast.unparse(node.func) in self.FUNCS and node.args:
            a = node.args[0]
            if isinstance(a, ast.List) and len(a.elts) >= 2:
                node.args[0] = ast.Tuple(elts=a.elts, ctx=ast.Load())
            elif isinstance(a, ast.Tuple):
                node.args[0] = ast.List(elts=a.elts, ctx=ast.Load())
        return node


class LenZero(ast.NodeTransformer):
    """emptiness tests in another spelling: len(x) == 0 -> not len(x); len(x) > 0 -> len(x) != 0; len(x) != 0 -> len(x) > 0; x is not None -> not x is None"""

    def visit_Compare(self, node):
        self.generic_visit(node)
        if len(node.ops) != 1:
            return node
        l, r, op = node.left, node.comparators[0], node.ops[0]
        is_len = isinstance(l, ast.Call) and isinstance(l.func, ast.Name) and l.func.id == "len" and isinstance(r, ast.Constant) and r.value == 0 and type(r.value) is int
        if is_len and isinstance(op, ast.Eq):
            return ast.UnaryOp(op=ast.Not(), operand=l)
        if is_len and isinstance(op, ast.Gt):
            return ast.Compare(left=l, ops=[ast.NotEq()], comparators=[r])
        if is_len and isinstance(op, ast.NotEq):
            return ast.Compare(left=l, ops=[ast.Gt()], comparators=[r])
        if isinstance(op, ast.IsNot) and isinstance(r, ast.Constant) and r.value is None:
            return ast.UnaryOp(op=ast.Not(), operand=ast.Compare(left=l, ops=[ast.Is()], comparators=[r]))
        return node


class Literals(ast.NodeTransformer):
    """`return None` <-> `return`; `dict()` / `list()` / `tuple()` <-> `{}` / `[]` / `()`"""

    def visit_Return(self, node):
        self.generic_visit(node)
        if node.value is None:
            node.value = ast.Constant(value=None)
        elif isinstance(node.value, ast.Constant) and node.value.value is None:
            node.value = None
        return node

    def visit_Call(self, node):
        self.generic_visit(node)
        if isinstance(node.func, ast.Name) and node.func.id in ("dict", "list", "tuple") and not node.args and not node.keywords:
            return {"dict": ast.Dict(keys=[], values=[]), "list": ast.List(elts=[], ctx=ast.Load()), "tuple": ast.Tuple(elts=[], ctx=ast.Load())}[node.func.id]
        return node

    def visit_Dict(self, node):
        self.generic_visit(node)
        if not node.keys:
            return ast.Call(func=ast.Name(id="dict", ctx=ast.Load()), args=[], keywords=[])
        return node

    def visit_List(self, node):
        self.generic_visit(node)
        if not node.elts and isinstance(node.ctx, ast.Load):
            return ast.Call(func=ast.Name(id="list", ctx=ast.Load()), args=[], keywords=[])
        return node


class IfExp2Stmt(ast.NodeTransformer):
    """`x = a if c else b` (x a plain local) -> `if c: x = a` / `else: x = b`"""

    def _block(self, body):
        out = []
        for st in body:
            st = self.visit(st)
            if isinstance(st, ast.Assign) and len(st.targets) == 1 and isinstance(st.targets[0], ast.Name) and isinstance(st.value, ast.IfExp):
                v = st.value
                a = ast.Assign(targets=[ast.Name(id=st.targets[0].id, ctx=ast.Store())], value=v.body)
                b = ast.Assign(targets=[ast.Name(id=st.targets[0].id, ctx=ast.Store())], value=v.orelse)
                out.append(ast.If(test=v.test, body=[a], orelse=[b]))
            else:
                out.append(st)
        return out

    def generic_visit(self, node):
        for f in ("body", "orelse", "finalbody"):
            v = getattr(node, f, None)
            if isinstance(v, list) and v and isinstance(v[0], ast.stmt):
                setattr(node, f, self._block(v))
        if isinstance(node, ast.Try):
            for h in node.handlers:
                h.body = self._block(h.body)
        return node


class MethodOrder(ast.NodeTransformer):
    """the first undecorated method of every class is moved to the end of the class body (definition order of methods carries no meaning)"""

    def visit_ClassDef(self, node):
        self.generic_visit(node)
        for i, st in enumerate(node.body):
            if isinstance(st, ast.FunctionDef) and not st.decorator_list and st.name != "__init__":
                used_later = any(isinstance(x, ast.Name) and x.id == st.name for later in node.body[i + 1:] if not isinstance(later, (ast.FunctionDef, ast.AsyncFunctionDef)) for x in ast.walk(later))
                if not used_later and i < len(node.body) - 1:
                    node.body.append(node.body.pop(i))
                break
        return node


class NoDoc(ast.NodeTransformer):
    def visit_FunctionDef(self, node):
        self.generic_visit(node)
        if node.body and isinstance(node.body[0], ast.Expr) and isinstance(node.body[0].value, ast.Constant) and isinstance(node.body[0].value.value, str) and len(node.body) > 1:
            node.body = node.body[1:]
        return node


def transform_source(src: str, name: str) -> str:
    tree = ast.parse(src)
    if name == "rename":
        tree = Rename().visit(tree)
    elif name == "tempret":
        tree = TempRet().visit(tree)
    elif name == "ifflip":
        tree = IfFlip().visit(tree)
    elif name == "nodoc":
        tree = NoDoc().visit(tree)
    elif name == "compvars":
        tree = CompVars().visit(tree)
    elif name == "elseify":
        tree = Elseify().visit(tree)
    elif name == "elimtemps":
        tree = ElimTemps().visit(tree)
    elif name == "addassert":
        tree = AddAssert().visit(tree)
    elif name == "kwreorder":
        tree = KwReorder().visit(tree)
    elif name == "cmpflip":
        tree = CmpFlip().visit(tree)
    elif name == "msgs":
        tree = Msgs().visit(tree)
    elif name == "typehints":
        tree = TypeHints().visit(tree)
    elif name == "tuplelist":
        tree = TupleList().visit(tree)
    elif name == "lenzero":
        tree = LenZero().visit(tree)
    elif name == "literals":
        tree = Literals().visit(tree)
    elif name == "ifexp2stmt":
        tree = IfExp2Stmt().visit(tree)
    elif name == "methodorder":
        tree = MethodOrder().visit(tree)
    elif name == "guardswap":
        sys.path.insert(0, V)
        from bnpsa import normalize
        g = normalize._GuardFirst()
        g.always = True
        tree = g.visit(tree)
    elif name != "identity":
        raise SystemExit(f"unknown transform {name}")
    ast.fix_missing_locations(tree)
    return ast.unparse(tree) + "\n"


def make(name: str, dest: str, repo: str = REPO):
    src_root = os.path.join(repo, "bionumpy")
    n = 0
    for dp, dn, fn in os.walk(src_root):
        dn[:] = [d for d in dn if d != "__pycache__"]
        rel = os.path.relpath(dp, repo)
        os.makedirs(os.path.join(dest, rel), exist_ok=True)
        for f in fn:
            s = os.path.join(dp, f)
            d = os.path.join(dest, rel, f)
            if f.endswith(".py"):
                import warnings
                with warnings.catch_warnings():
                    warnings.simplefilter("ignore")
                    open(d, "w").write(transform_source(open(s).read(), name))
                n += 1
            else:
                shutil.copy(s, d)
    return n


def run_checks(root: str):
    import contextlib
    import importlib
    import io
    sys.path.insert(0, V)
    from bnpsa.report import Ctx
    res = {}
    for i in range(1, 21):
        prop = f"C{i:02d}"
        try:
            mod = importlib.import_module(f"bnpsa.rules.{prop.lower()}")
        except ModuleNotFoundError:
            continue
        buf = io.StringIO()
        with contextlib.redirect_stdout(buf):
            try:
                ctx = Ctx(prop, "quick", root, 0, write=False)
                ctx.run_rules(mod.RULES)
                known = {k.get("key") for k in ctx.known}
                viol = [x for x in ctx.violations if x.get("key") not in known]
                res[prop] = {"violations": [(x["rule"], x.get("key"), x.get("where")) for x in viol], "errors": list(ctx.analysis_errors)}
            except Exception as e:
                res[prop] = {"violations": [], "errors": [f"crash {type(e).__name__}: {e}"]}
    return res


def main():
    cmd = sys.argv[1]
    if cmd == "make":
        print(make(sys.argv[2], sys.argv[3]), "files")
    elif cmd == "suite":
        d = tempfile.mkdtemp(prefix="rfv_", dir="/dev/shm")
        try:
            subprocess.run(["git", "-C", REPO, "worktree", "add", "--detach", "-q", d + "/wt"], check=True)
            make(sys.argv[2], d + "/new")
            shutil.rmtree(d + "/wt/bionumpy")
            shutil.copytree(d + "/new/bionumpy", d + "/wt/bionumpy")
            r = subprocess.run([os.path.join(V, "tools", "run_baseline.sh"), d + "/wt"], capture_output=True, text=True)
            print(r.stdout[-600:])
        finally:
            subprocess.run(["git", "-C", REPO, "worktree", "remove", "--force", d + "/wt"])
            shutil.rmtree(d, ignore_errors=True)
    elif cmd == "run":
        names = sys.argv[2:] or TRANSFORMS
        out = {}
        bad = 0
        for t in names:
            d = tempfile.mkdtemp(prefix="rfv_", dir="/dev/shm")
            try:
                make(t, d)
                out[t] = run_checks(d)
            finally:
                shutil.rmtree(d, ignore_errors=True)
            for p, r in out[t].items():
                if r["violations"] or r["errors"]:
                    bad += 1
                    print(f"[{t}] {p}: {len(r['violations'])} violations, {len(r['errors'])} analysis errors")
                    for v in r["violations"][:6]:
                        print("     V", v)
                    for e in r["errors"][:4]:
                        print("     E", e[:300])
        print(f"variants={len(names)} property-runs-with-alarm={bad}")
        json.dump(out, open(os.path.join(V, "seeded", "refactor_matrix.json"), "w"), indent=1, default=str)
        sys.exit(1 if bad else 0)


if __name__ == "__main__":
    main()
