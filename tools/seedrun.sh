#!/bin/bash
# Usage: seedrun.sh <patch.diff> <PROP> [more props...]  -- apply a seeded patch to a scratch copy of /repo/bionumpy and run the checks on it (never touches /repo)
P=$1; shift
D=$(mktemp -d /dev/shm/seedrun.XXXXXX)
mkdir -p $D/r && cp -r /repo/bionumpy $D/r/ && find $D/r -name __pycache__ -prune -exec rm -rf {} + 
( cd $D/r && git init -q . 2>/dev/null; patch -p1 -s < "$P" ) || { echo "PATCH-FAILED $P"; rm -rf $D; exit 3; }
rc=0
for prop in "$@"; do
  ( cd /verif && /venv/bin/python -m bnpsa check $prop --root $D/r --no-write 2>&1 | grep -v "^WARNING conda" ) ; 
done
rm -rf $D
