#!/venv/bin/python
"""Prepare round 7 of independent changes: per property a scratch worktree /tmp/wt7/Cxx, the property text and a prompt under /tmp/wt6/out.
Round 5 asks for 2 breaking changes AND 4 behaviour-preserving ones (the corpus that must NOT alarm).  Nothing from /verif but the property text (and the
one-line summaries of the earlier agents' own changes, so that they are not repeated) is given to the agents."""
import json
import os
import subprocess

V = os.path.dirname(os.path.dirname(os.path.abspath(__file__)))
W = "/tmp/wt7"
recs = [json.loads(l) for l in open(os.path.join(V, "properties.jsonl"))]
for r in recs:
    p = r["id"]
    wt = f"{W}/{p}"
    if not os.path.isdir(wt):
        subprocess.run(["git", "-C", "/repo", "worktree", "add", "--detach", "-q", wt], check=True)
    a = r["anchors"]
    obs = a.get("observe_at")
    obs = "; ".join(o if isinstance(o, str) else json.dumps(o) for o in obs) if isinstance(obs, list) else str(obs)
    prop = (f"{p}: {r['title']}\n\nStatement: {r['statement']}\n\nQuantified over: {r['quantifier']['text']}\n\nCode involved (files): {', '.join(a['files'])}\nMechanisms:\n" +
            "\n".join(f"- {m['name']} ({m['where']})" for m in a["mechanism"]) + f"\nObservable at: {obs}\n")
    open(f"{W}/out/{p}.property.txt", "w").write(prop)
    earlier = []
    for s in sorted(os.listdir(os.path.join(V, "seeded"))):
        if s.startswith(p + "-") and os.path.isfile(os.path.join(V, "seeded", s, "meta.json")):
            m = json.load(open(os.path.join(V, "seeded", s, "meta.json")))
            earlier.append(f"- {m.get('files_changed')}: {m.get('summary', '')[:200]}")
    earlier_k = []
    for s_ in sorted(os.listdir(os.path.join(V, "benign"))):
        if s_.startswith(p + "-") and os.path.isfile(os.path.join(V, "benign", s_, "meta.json")):
            m_ = json.load(open(os.path.join(V, "benign", s_, "meta.json")))
            earlier_k.append(f"- {m_.get('files_changed')}: {m_.get('summary', '')[:160]}")
    prompt = f"""You are helping test a verification effort for the Python library bionumpy by producing two kinds of source changes. You work ONLY in your own scratch git worktree at {wt} (a checkout of the library). Never read or write anything under /repo or /verif. The sandbox has no network. Do NOT use `git stash` (the stash is shared between worktrees); to undo your edits use `git checkout -- .` in your own worktree.

The property under test (full text also in {W}/out/{p}.property.txt):

{prop}
PART A - 1 *breaking* change.  Devise 1 change to the library source (files under {wt}/bionumpy/) which BREAKS this property while
 (a) the package still imports and compiles;
 (b) the repository's existing test suite still passes as before: `{W}/tools/run_baseline.sh {wt}` must print a line ending in `missing 0` (takes ~20 s; about 46 tests fail on the clean tree already - ignore those);
 (c) the breakage needs something specific to manifest - an unusual input, a particular size / boundary, a multi-step sequence of operations, or two cooperating sites that each look fine alone - NOT something ordinary use would expose at once;
 (d) it looks like a realistic bug a developer could introduce (off-by-one, forgotten case, wrong operator, refactoring slip, stale cache, dropped copy, swapped arguments, wrong one of two similar names, fast path whose guard is slightly too wide ...), not sabotage with magic trigger values.
For the breaking change (n = 1) write to {W}/out/{p}/b<n>/ :
 - patch.diff : `git -C {wt} diff` output (must apply with `git apply` on a clean checkout);
 - demo.py : a small standalone program exercising the property through the library's public API; run as `cd {wt} && PYTHONPATH={wt} /venv/bin/python {W}/out/{p}/b<n>/demo.py` it must exit 0 on the clean worktree and exit non-zero (assertion failure showing the wrong behaviour) with the patch applied. It creates any temp files itself and prints `bionumpy.__file__`.
 - meta.json : {{"property": "{p}", "kind": "breaking", "summary": "...what was changed...", "needs_to_manifest": "...", "files_changed": [...], "suite_result": "stable_pass 366 ... missing 0"}}

PART B - 2 *behaviour-preserving* changes.  Devise 2 distinct changes to the SAME kind of code (functions that implement this property: the mechanisms listed above and the helpers they call) that a maintainer could plausibly make and that do NOT change what the library computes for any input: the property - and every other documented behaviour - still holds afterwards.  Make them realistic and non-trivial (each should change at least ~5 lines of one or more functions that matter for the property), and make the 2 differ in kind.  Kinds wanted (pick 2 different ones):
   1. restructure control flow (early return <-> if/else, merge or split branches, guard clauses, flatten nesting, loop <-> comprehension, while <-> for);
   2. extract a helper function / method from a mechanism function, or inline a small helper into its caller;
   3. rewrite expressions into equivalent ones (a different but equal numpy formulation, reordered independent statements, a renamed or removed temporary, slicing written differently, `np.where` <-> boolean indexing, combined or split conditions);
   4. a performance shortcut / fast path that is correct for EVERY input (be careful: its guard must be exactly right), or removal of a redundant computation;
   5. added input validation or assertions that reject only input that already failed before, better error messages, added logging / type hints / docstrings together with small code tidying;
   6. a new optional keyword parameter (default = old behaviour) threaded through two or more functions, or a renamed private attribute / method updated at all its uses.
 Requirements: (a) compiles/imports; (b) the suite script prints `missing 0`; (c) behaviour is unchanged - convince yourself by reasoning about every input class named in the property (empty input, single entry, boundaries, both strands, gzip, ...), not only by testing.
For each preserving change n = 1..2 write to {W}/out/{p}/k<n>/ :
 - patch.diff (as above);
 - check.py : a standalone program that exercises the property on a range of inputs INCLUDING the corner cases the property names, through the public API, asserting the correct results; it must exit 0 both on the clean worktree and with the patch applied (run it both ways);
 - meta.json : {{"property": "{p}", "kind": "preserving", "summary": "...what was changed and why behaviour is unchanged...", "change_kind": "<one of the 6 kinds>", "files_changed": [...], "suite_result": "..."}}

Procedure for each change: edit -> run the suite script -> run demo/check with the patch -> save the diff -> `git -C {wt} checkout -- .` (and delete any new untracked files you created in the worktree) -> run demo/check on the clean tree. Leave the worktree clean at the end (`git -C {wt} status --short` prints nothing).
Use /venv/bin/python for everything (Python 3.12 with numpy, npstructures, pytest installed). Read the relevant library code first. Do not modify tests. Do not commit.
Final answer: a short list, per change: kind, files/functions touched, one-line description, and confirmation of the suite result and of the demo/check results with and without the patch.

Earlier rounds already produced the following breaking changes for this property. For PART A do NOT touch the same functions again; find functions and helper code none of them touched (including code in other modules that the property's operations call):
""" + "\n".join(earlier) + "\n\nAn earlier round also produced these behaviour-preserving changes. For PART B choose OTHER functions than these (other mechanism functions of the property, or helpers they call):\n" + "\n".join(earlier_k) + "\n"
    open(f"{W}/out/{p}.prompt.txt", "w").write(prompt)
    os.makedirs(f"{W}/out/{p}", exist_ok=True)
print("prepared", len(recs))
