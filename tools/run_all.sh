#!/bin/bash
# run_all.sh [quick|thorough]: every property's check on /repo, one after the other; prints the exit codes (all must be 0 on the unchanged tree)
TIER=${1:-quick}
cd /verif
for i in $(seq -w 1 20); do
  /venv/bin/python -m bnpsa check C$i --tier $TIER > /tmp/run_all_C$i.log 2>&1
  echo "C$i exit=$? $(grep -c '^KNOWN-FINDING' /tmp/run_all_C$i.log) known, $(grep -c '^VIOLATION\|^ANALYSIS-ERROR\|^SELFTEST-MISS\|^REFACTOR-ALARM' /tmp/run_all_C$i.log) alarm lines, $(grep -c '^BENIGN-ALARM' /tmp/run_all_C$i.log) benign alarms"
done
