#!/venv/bin/python
"""Which functions implement which property?  Three independent sources, all static:

  mechanism   the line ranges that properties.jsonl itself gives for every mechanism of the property (`anchors.mechanism[].where`), mapped to the functions
              whose definition overlaps them on the current tree (tolerance for lines shifted by the repairs);
  rule        the functions in which the property's own rules place an obligation on the current tree;
  seed        the functions that a confirmed seeded change of the property edits (every such change comes with a demonstration that the property's behaviour
              changes, so the edited function is on the property's path).  `--rounds 1-3` restricts the seeds (used for leave-one-round-out estimates).

Writes bnpsa/tables/relevance.json: {property: {"module::qualname": [sources...]}}.  Used by the through-time rule T2 (bnpsa/through_time.py)."""
from __future__ import annotations
import ast
import contextlib
import io
import json
import os
import re
import shutil
import subprocess
import sys
import tempfile

V = os.path.dirname(os.path.dirname(os.path.abspath(__file__)))
sys.path.insert(0, V)
from bnpsa.index import Index  # noqa: E402
from bnpsa import normalize    # noqa: E402

PROPS = [f"C{i:02d}" for i in range(1, 21)]


def spans(ix):
    out = {}
    for mn, mi in ix.modules.items():
        for qn, fi in mi.functions.items():
            if isinstance(fi.node, ast.Lambda):
                continue
            out[(mn, qn)] = (mi.relpath, fi.node.lineno, getattr(fi.node, "end_lineno", fi.node.lineno))
    return out


def from_mechanisms(ix, prop_rec, tol=12):
    sp = spans(ix)
    hits = set()
    for m in prop_rec["anchors"].get("mechanism", []):
        for part in m["where"].split(";"):
            part = part.strip()
            mm = re.match(r"(\S+?\.py):(.*)$", part)
            if not mm:
                continue
            rel, ranges = mm.group(1), mm.group(2)
            for r in ranges.split(","):
                r = r.strip()
                if not r:
                    continue
                a, _, b = r.partition("-")
                try:
                    lo, hi = int(a), int(b or a)
                except ValueError:
                    continue
                for key, (frel, s, e) in sp.items():
                    if frel == rel and not (e < lo - tol or s > hi + tol):
                        # require real overlap or closeness of the function START to the range (long classes do not count through their methods' parents)
                        if s <= hi + tol and e >= lo - tol:
                            hits.add(key)
    return hits


def from_rules(ix_root, prop):
    import importlib
    from bnpsa.report import Ctx
    mod = importlib.import_module(f"bnpsa.rules.{prop.lower()}")
    buf = io.StringIO()
    with contextlib.redirect_stdout(buf):
        ctx = Ctx(prop, "quick", ix_root, 0, write=False)
        rules = [r for r in mod.RULES if not r[0].endswith("-T1") and not r[0].endswith("-T2")]
        ctx.run_rules(rules)
    hits = set()
    for o in ctx.obligations:
        w = o["where"]
        m = re.match(r"(\S+?\.py):\d+ (?:class )?(\S+)", w)
        if m:
            rel, qn = m.group(1), m.group(2)
            modname = rel[:-3].replace("/", ".")
            hits.add((modname, qn))
    return hits


def norm_sources(root):
    ix = Index(root)
    out = {}
    for mn, mi in ix.modules.items():
        for qn, fi in mi.functions.items():
            if isinstance(fi.node, ast.Lambda):
                continue
            try:
                out[(mn, qn)] = ast.dump(fi.node)
            except Exception:
                pass
    return out


def from_seeds(prop, clean_src, rounds=None):
    hits = set()
    sd = os.path.join(V, "seeded")
    for s in sorted(os.listdir(sd)):
        m = re.match(rf"{prop}-(\d+)$", s)
        if not m:
            continue
        n = int(m.group(1))
        rnd = 1 if n <= 3 else 2 if n <= 7 else 3 if n <= 11 else 4 if n <= 15 else 5 if n <= 17 else 6
        if rounds and rnd not in rounds:
            continue
        d = tempfile.mkdtemp(prefix="rel_", dir="/dev/shm")
        try:
            shutil.copytree("/repo/bionumpy", os.path.join(d, "bionumpy"), ignore=shutil.ignore_patterns("__pycache__"))
            p = subprocess.run(["patch", "-p1", "-s", "-i", os.path.join(sd, s, "patch.diff")], cwd=d, capture_output=True, text=True)
            if p.returncode != 0:
                continue
            os.environ["BNPSA_NO_NORMALIZE"] = "1"
            try:
                now = norm_sources(d)
            finally:
                os.environ.pop("BNPSA_NO_NORMALIZE", None)
            for k, v in now.items():
                if k in clean_src and clean_src[k] != v:
                    hits.add(k)
        finally:
            shutil.rmtree(d, ignore_errors=True)
    return hits


def main():
    rounds = None
    out_path = os.path.join(V, "bnpsa", "tables", "relevance.json")
    args = sys.argv[1:]
    if "--rounds" in args:
        r = args[args.index("--rounds") + 1]
        a, _, b = r.partition("-")
        rounds = set(range(int(a), int(b or a) + 1))
    if "--out" in args:
        out_path = args[args.index("--out") + 1]
    ix = Index("/repo")
    os.environ["BNPSA_NO_NORMALIZE"] = "1"
    clean = norm_sources("/repo")
    os.environ.pop("BNPSA_NO_NORMALIZE", None)
    recs = {json.loads(l)["id"]: json.loads(l) for l in open(os.path.join(V, "properties.jsonl"))}
    table = {}
    for p in PROPS:
        ent = {}
        for k in from_mechanisms(ix, recs[p]):
            ent.setdefault("::".join(k), []).append("mechanism")
        for k in from_rules("/repo", p):
            if k in clean:
                ent.setdefault("::".join(k), []).append("rule")
        for k in from_seeds(p, clean, rounds):
            ent.setdefault("::".join(k), []).append("seed")
        # nested functions of a relevant function are relevant; a relevant nested function makes its parents relevant for through-time comparison of their own text
        table[p] = dict(sorted(ent.items()))
        print(p, len(ent), {s: sum(1 for v in ent.values() if s in v) for s in ("mechanism", "rule", "seed")})
    json.dump(table, open(out_path, "w"), indent=0, sort_keys=True)


if __name__ == "__main__":
    main()
