#!/bin/bash
# import_round5.sh <round-out-dir> <first-seed-number> <preserving-offset> [props...]: breaking changes <dir>/Cxx/b<n> -> /verif/seeded/Cxx-<first+n-1> (tools/verify_seed.sh);
# behaviour-preserving changes <dir>/Cxx/k<n> -> /verif/benign/Cxx-k<n> (tools/verify_benign.sh); preserving change k<n> of the round is stored as k<offset+n>.  Prints the unconfirmed ones.
OUT=$1; FIRST=$2; KOFF=$3; shift 3
PROPS=${@:-$(seq -f "C%02g" 1 20)}
ids=(); kids=()
for p in $PROPS; do
  for n in 1 2 3; do src=$OUT/$p/b$n; [ -f $src/patch.diff ] || continue; id=$p-$((FIRST+n-1)); d=/verif/seeded/$id; mkdir -p $d; cp $src/patch.diff $src/demo.py $src/meta.json $d/; ids+=($id); done
  for n in 1 2 3 4 5; do src=$OUT/$p/k$n; [ -f $src/patch.diff ] || continue; id=$p-k$((KOFF+n)); d=/verif/benign/$id; mkdir -p $d; cp $src/patch.diff $src/check.py $src/meta.json $d/; kids+=($id); done
done
: > /tmp/import_round5.log
[ ${#ids[@]} -gt 0 ] && printf "%s\n" "${ids[@]}" | xargs -P 8 -I{} /verif/tools/verify_seed.sh {} 2>&1 | grep -v "WARNING conda" >> /tmp/import_round5.log
[ ${#kids[@]} -gt 0 ] && printf "%s\n" "${kids[@]}" | xargs -P 8 -I{} /verif/tools/verify_benign.sh {} 2>&1 | grep -v "WARNING conda" >> /tmp/import_round5.log
echo "imported ${#ids[@]} breaking, ${#kids[@]} preserving; confirmed $(grep -c ' confirmed ' /tmp/import_round5.log)"; grep NOT-CONFIRMED /tmp/import_round5.log
