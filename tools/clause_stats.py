#!/venv/bin/python
"""Per clause: on how many confirmed breaking changes (seeded/) and on how many confirmed behaviour-preserving changes (benign/) it reports a violation when every
clause failure counts (BNPSA_STRICT_FORMS=1).  Writes /verif/seeded/clause_stats.json.  Used to find the clauses whose failure says 'the text changed', not 'the
property broke'."""
import collections
import json
import os
import subprocess
import sys
from concurrent.futures import ProcessPoolExecutor

V = os.path.dirname(os.path.dirname(os.path.abspath(__file__)))
sys.path.insert(0, os.path.join(V, "tools"))
sys.path.insert(0, V)


def one(job):
    kind, cid, patch = job
    os.environ["BNPSA_STRICT_FORMS"] = "1"
    import contextlib, importlib, io, shutil, tempfile
    from bnpsa.report import Ctx
    d = tempfile.mkdtemp(prefix="cs_", dir="/dev/shm")
    try:
        shutil.copytree("/repo/bionumpy", os.path.join(d, "bionumpy"), ignore=shutil.ignore_patterns("__pycache__"))
        if subprocess.run(["patch", "-p1", "-s", "-i", patch], cwd=d, capture_output=True).returncode:
            return kind, cid, None
        out = {}
        for i in range(1, 21):
            prop = f"C{i:02d}"
            mod = importlib.import_module(f"bnpsa.rules.{prop.lower()}")
            with contextlib.redirect_stdout(io.StringIO()):
                ctx = Ctx(prop, "quick", d, 0, write=False)
                ctx.run_rules(mod.RULES)
            known = {k.get("key") for k in ctx.known}
            out[prop] = {"v": [(x["rule"], x.get("key"), x["where"], ctx.function_status(x["where"])) for x in ctx.violations if x.get("key") not in known],
                         "e": [e[:160] for e in ctx.analysis_errors]}
        return kind, cid, out
    finally:
        shutil.rmtree(d, ignore_errors=True)


def main():
    jobs = []
    for kind, base in (("seed", "seeded"), ("benign", "benign")):
        for s in sorted(os.listdir(os.path.join(V, base))):
            p = os.path.join(V, base, s, "patch.diff")
            v = os.path.join(V, base, s, "verified.json")
            if os.path.isfile(p) and os.path.isfile(v) and json.load(open(v)).get("confirmed"):
                jobs.append((kind, s, p))
    with ProcessPoolExecutor(16) as ex:
        res = list(ex.map(one, jobs))
    json.dump(res, open(os.path.join(V, "seeded", "clause_stats.json"), "w"))
    print(len(res), "patches")


if __name__ == "__main__":
    main()
