#!/venv/bin/python
"""Run every check against every seeded change (each applied to its own scratch copy of /repo/bionumpy, outside /repo and /verif) and write
/verif/seeded/MATRIX.md + matrix.json: which checks fire on which seed, with the rule that fired.  Never touches /repo."""
import contextlib
import io
import json
import os
import shutil
import subprocess
import sys
import tempfile
from concurrent.futures import ProcessPoolExecutor

V = os.path.dirname(os.path.dirname(os.path.abspath(__file__)))
sys.path.insert(0, V)
PROPS = [f"C{i:02d}" for i in range(1, 21)]


def one(seed):
    import importlib
    from bnpsa.report import Ctx
    base = "/dev/shm" if os.path.isdir("/dev/shm") else tempfile.gettempdir()
    d = tempfile.mkdtemp(prefix="seedmx_", dir=base)
    try:
        shutil.copytree("/repo/bionumpy", os.path.join(d, "bionumpy"), ignore=shutil.ignore_patterns("__pycache__"))
        p = subprocess.run(["patch", "-p1", "-s", "-i", os.path.join(V, "seeded", seed, "patch.diff")], cwd=d, capture_output=True, text=True)
        if p.returncode != 0:
            return seed, {"error": "patch failed: " + p.stdout[-200:]}
        res = {}
        for prop in PROPS:
            mod = importlib.import_module(f"bnpsa.rules.{prop.lower()}")
            buf = io.StringIO()
            with contextlib.redirect_stdout(buf):
                ctx = Ctx(prop, "quick", d, 0, write=False)
                ctx.run_rules(mod.RULES)
            known = {k.get("key") for k in ctx.known}
            v = sorted({x["rule"] for x in ctx.violations if x.get("key") not in known})
            res[prop] = {"violations": v, "analysis_errors": [e.split(":")[0] for e in ctx.analysis_errors]}
        return seed, res
    finally:
        shutil.rmtree(d, ignore_errors=True)


def main():
    seeds = sorted(s for s in os.listdir(os.path.join(V, "seeded")) if os.path.isdir(os.path.join(V, "seeded", s)))
    only = [a for a in sys.argv[1:] if not a.startswith("-")]
    if only:           # quick look at some seeds (e.g. `seed_matrix.py -8 -9 -10 -11` suffixes or full ids); does not rewrite MATRIX.md
        pass
    sel = [a for a in sys.argv[1:]]
    if sel:
        seeds = [s for s in seeds if any(s.endswith(a) or s == a for a in sel)]
        with ProcessPoolExecutor(max_workers=16) as ex:
            out = dict(ex.map(one, seeds))
        for s in seeds:
            r = out[s]
            own = s.split("-")[0]
            if "error" in r:
                print(s, "ERROR", r["error"]); continue
            others = [f"{p}:{','.join(r[p]['violations'])}" for p in PROPS if p != own and r[p]["violations"]]
            print(s, "VIOLATION" if r[own]["violations"] else ("analysis-error" if r[own]["analysis_errors"] else "missed"), r[own]["violations"] or r[own]["analysis_errors"], "|", "; ".join(others))
        return
    with ProcessPoolExecutor(max_workers=16) as ex:
        out = dict(ex.map(one, seeds))
    json.dump(out, open(os.path.join(V, "seeded", "matrix.json"), "w"), indent=1)
    lines = ["# Seeded changes x checks", "",
             "Each seeded change (independent sub-agent, confirmed in a scratch worktree: suite keeps its stable-pass set, demo fails with / passes without the patch)",
             "was applied to a scratch copy of /repo/bionumpy and all 20 checks were run on it.  `own` = the check of the property the seed targets.", "",
             "| seed | own check | rules that fired (own) | other checks that fired | summary |", "|---|---|---|---|---|"]
    caught_own = caught_any = 0
    for s in seeds:
        r = out[s]
        if "error" in r:
            lines.append(f"| {s} | ERROR | {r['error']} | | |")
            continue
        own = s.split("-")[0]
        meta = json.load(open(os.path.join(V, "seeded", s, "meta.json")))
        summ = str(meta.get("summary", ""))[:110].replace("|", "/").replace("\n", " ")
        ov = r[own]["violations"]
        oe = r[own]["analysis_errors"]
        others = [f"{p}:{','.join(r[p]['violations'])}" for p in PROPS if p != own and r[p]["violations"]]
        verdict = "VIOLATION" if ov else ("analysis-error" if oe else "missed")
        caught_own += bool(ov)
        caught_any += bool(ov or others)
        lines.append(f"| {s} | {verdict} | {', '.join(ov) or ', '.join(oe)} | {'; '.join(others)} | {summ} |")
    lines += ["", f"Caught by the targeted property's own check: {caught_own}/{len(seeds)}; by at least one check: {caught_any}/{len(seeds)}."]
    open(os.path.join(V, "seeded", "MATRIX.md"), "w").write("\n".join(lines) + "\n")
    print(lines[-1])


if __name__ == "__main__":
    main()
