#!/venv/bin/python
"""Run every check against every confirmed behaviour-preserving change of /verif/benign (each applied to its own scratch copy of /repo/bionumpy).
A violation reported on one of them is a false alarm; an analysis error is a change the checker cannot follow (exit 2, no verdict).  Writes
/verif/benign/MATRIX.md + matrix.json.  Never touches /repo."""
import json
import os
import subprocess
import sys
from concurrent.futures import ProcessPoolExecutor

V = os.path.dirname(os.path.dirname(os.path.abspath(__file__)))
sys.path.insert(0, os.path.join(V, "tools"))
sys.path.insert(0, V)
B = os.path.join(V, "benign")


def one(cid):
    import try_patch

    def ap(d):
        subprocess.run(["patch", "-p1", "-s", "-i", os.path.join(B, cid, "patch.diff")], cwd=d, check=True)
    try:
        return cid, try_patch.run(ap)
    except Exception as e:
        return cid, {"ERROR": ([], [f"{type(e).__name__}: {e}"])}


def main():
    ids = sorted(d for d in os.listdir(B) if os.path.isfile(os.path.join(B, d, "patch.diff")))
    sel = sys.argv[1:]
    if sel:
        ids = [i for i in ids if any(i == a or i.startswith(a) or i.endswith(a) for a in sel)]
    conf = []
    for i in ids:
        v = os.path.join(B, i, "verified.json")
        if os.path.isfile(v) and json.load(open(v)).get("confirmed"):
            conf.append(i)
    with ProcessPoolExecutor(max_workers=16) as ex:
        out = dict(ex.map(one, conf))
    alarms = errs = 0
    lines = ["| change | kind | violations (false alarms) | analysis errors (no verdict) | summary |", "|---|---|---|---|---|"]
    for i in conf:
        r = out[i]
        meta = json.load(open(os.path.join(B, i, "meta.json")))
        v = sorted({f"{p}:{x[0]}" for p, (vs, es) in r.items() for x in vs})
        e = sorted({f"{p}:{x.split(':')[0]}" for p, (vs, es) in r.items() for x in es})
        alarms += bool(v)
        errs += bool(e) and not v
        lines.append(f"| {i} | {meta.get('change_kind', '')[:30]} | {', '.join(v)} | {', '.join(e)} | {meta.get('summary', '')[:110].replace('|', '/')} |")
        if v or e:
            print(i, "ALARM" if v else "no-verdict", v, e)
            for p, (vs, es) in r.items():
                for x in vs:
                    print("     ", p, *x)
                for x in es:
                    print("     ", p, "E", x[:160])
    head = f"{len(conf)} confirmed behaviour-preserving changes; with a false alarm: {alarms}; without alarm but with a check that cannot follow the change (exit 2): {errs}; silent: {len(conf) - alarms - errs}."
    print(head)
    if not sel:
        open(os.path.join(B, "MATRIX.md"), "w").write("# Behaviour-preserving changes x checks\n\n" + head + "\n\n" + "\n".join(lines) + "\n")
        json.dump({i: {p: {"violations": [list(x) for x in vs], "analysis_errors": es} for p, (vs, es) in out[i].items()} for i in conf}, open(os.path.join(B, "matrix.json"), "w"), indent=1)


if __name__ == "__main__":
    main()
