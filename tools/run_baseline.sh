#!/bin/bash
# Usage: run_baseline.sh [repo_dir]  -- runs the repo's pinned suite (guard off) and compares with BASELINE.json stable_pass
DIR=${1:-/repo}
OUT=$(mktemp /dev/shm/junit.XXXXXX.xml)
cd "$DIR" && /venv/bin/python -m pytest -ra -q -p no:cacheprovider --timeout=900 --continue-on-collection-errors --junitxml=$OUT >/dev/shm/pytest.$$.log 2>&1
/venv/bin/python - "$OUT" <<'PY'
import sys, json, xml.etree.ElementTree as ET
base=json.load(open('/root/.vp/BASELINE.json'))
stable=set(base['stable_pass'])
root=ET.parse(sys.argv[1]).getroot()
passed=set()
for tc in root.iter('testcase'):
    name=tc.get('classname')+'::'+tc.get('name')
    if not any(c.tag in ('failure','error','skipped') for c in tc):
        passed.add(name)
missing=sorted(stable-passed)
print('stable_pass', len(stable), 'passed_now', len(passed), 'missing', len(missing))
for m in missing: print('  MISSING', m)
sys.exit(1 if missing else 0)
PY
rc=$?
rm -f $OUT /dev/shm/pytest.$$.log
exit $rc
