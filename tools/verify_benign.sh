#!/bin/bash
# verify_benign.sh <id>   e.g. C01-k1 : confirm a behaviour-preserving change (/verif/benign/<id>) in a fresh scratch worktree of /repo HEAD:
#  patch applies; package imports; baseline suite keeps its stable-pass set; check.py exits 0 with the patch AND without it.
ID=$1
S=/verif/benign/$ID
W=$(mktemp -d /tmp/vben.XXXXXX)
git -C /repo worktree add -q --detach $W/wt HEAD || { echo "$ID worktree-failed"; exit 2; }
cd $W/wt
res_apply=ok; git apply $S/patch.diff 2>/dev/null || res_apply=FAILED
imp=$(PYTHONPATH=$W/wt /venv/bin/python -W ignore -c "import bionumpy; print('ok')" 2>&1 | tail -1)
suite=$(/verif/tools/run_baseline.sh $W/wt 2>&1 | grep stable_pass)
PYTHONPATH=$W/wt timeout 900 /venv/bin/python -W ignore $S/check.py >/dev/null 2>&1; rc_patched=$?
git checkout -q -- . ; git clean -fdq
PYTHONPATH=$W/wt timeout 900 /venv/bin/python -W ignore $S/check.py >/dev/null 2>&1; rc_clean=$?
cd /; git -C /repo worktree remove --force $W/wt; rm -rf $W
ok=no; [[ "$res_apply" == ok && "$imp" == ok && "$suite" == *"missing 0"* && $rc_patched -eq 0 && $rc_clean -eq 0 ]] && ok=yes
/venv/bin/python - "$S" "$ID" "$res_apply" "$imp" "$suite" "$rc_patched" "$rc_clean" "$ok" <<'PY'
import sys, json, os, subprocess
S, ID, ap, imp, suite, rp, rc, ok = sys.argv[1:]
head = subprocess.run(["git", "-C", "/repo", "rev-parse", "--short", "HEAD"], capture_output=True, text=True).stdout.strip()
json.dump({"change": ID, "confirmed": ok == "yes", "repo_head": head, "patch_applies": ap, "imports": imp, "suite": suite,
           "check_exit_with_patch": int(rp), "check_exit_clean": int(rc)}, open(os.path.join(S, "verified.json"), "w"), indent=1)
print(ID, "confirmed" if ok == "yes" else "NOT-CONFIRMED", ap, imp, suite, rp, rc)
PY
