#!/bin/bash
# import_round.sh <round-out-dir> <first-seed-number>: copy <dir>/Cxx/<n>/{patch.diff,demo.py,meta.json} to /verif/seeded/Cxx-<first+n-1> and confirm each in a fresh
# scratch worktree (tools/verify_seed.sh).  Prints the unconfirmed ones.
OUT=$1; FIRST=$2
ids=()
for i in $(seq -w 1 20); do for n in 1 2 3 4 5 6; do src=$OUT/C$i/$n; [ -f $src/patch.diff ] || continue; id=C$i-$((FIRST+n-1)); d=/verif/seeded/$id; mkdir -p $d; cp $src/patch.diff $src/demo.py $src/meta.json $d/; ids+=($id); done; done
printf "%s\n" "${ids[@]}" | xargs -P 10 -I{} /verif/tools/verify_seed.sh {} 2>&1 | grep -v "WARNING conda" > /tmp/import_round.log
echo "imported ${#ids[@]}; confirmed $(grep -c ' confirmed ' /tmp/import_round.log)"; grep NOT-CONFIRMED /tmp/import_round.log
