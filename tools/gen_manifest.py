#!/venv/bin/python
"""Regenerate /verif/MANIFEST.json from the per-property metadata below + which rule modules exist.
A property is claimed iff bnpsa/rules/cXX.py exists and it is listed in CLAIMS; everything else goes to not_applicable."""
import json, os, sys
V = os.path.dirname(os.path.dirname(os.path.abspath(__file__)))
sys.path.insert(0, V)
from tools.claims import CLAIMS, NOT_APPLICABLE  # noqa

props = [json.loads(l) for l in open(os.path.join(V, "properties.jsonl"))]
ids = [p["id"] for p in props]
checks, na = [], []
for pid in ids:
    mod = os.path.join(V, "bnpsa", "rules", pid.lower() + ".py")
    if pid in CLAIMS and os.path.exists(mod):
        c = CLAIMS[pid]
        checks.append({
            "property_id": pid,
            "quick_cmd": f"/venv/bin/python -m bnpsa check {pid} --tier quick",
            "thorough_cmd": f"/venv/bin/python -m bnpsa check {pid} --tier thorough",
            "evidence_file": f"/verif/evidence/{pid}.json",
            "replay_cmd_template": "/venv/bin/python -m bnpsa replay {path}",
            "engine": "bnpsa",
            "level_claimed": {"category": "other", "text": c["text"], "design_ref": f"DESIGN.md section 6 / {pid}"},
            "level_note": c["note"],
            "technique": c["technique"],
        })
    else:
        na.append({"property_id": pid, "reason": NOT_APPLICABLE.get(pid, "static check for this property is not armed yet (rules designed in DESIGN.md section 6); claimed only once its rule instances exist and pass both-direction self-tests")})
m = {
    "version": 1,
    "setup_cmd": "true",
    "hooks": {"guard": "BIONUMPY_VERIF", "enable": "no hooks exist: nothing in /repo is instrumented, the checks only parse /repo/bionumpy source",
              "baseline_off_cmd": "cd /repo && /venv/bin/python -m pytest -ra -q -p no:cacheprovider --timeout=900 --continue-on-collection-errors",
              "source_commits": [], "add_only": True},
    "engines": [{"name": "bnpsa", "path": "/verif/bnpsa", "serves_properties": [c["property_id"] for c in checks],
                 "kind_free_text": "repository-specific static analysis over Python ast (stdlib; numpy only as the value domain of the constant evaluator): "
                                   "index + class hierarchy, statement CFG with path queries, constant evaluation of tables, polynomial normal forms, "
                                   "dataflow/ownership, rule instances per property; three-valued verdict (0 holds / 1 VIOLATION / 2 ANALYSIS-ERROR)"}],
    "checks": checks,
    "notes": "Static analysis only: every verdict is computed from /repo/bionumpy source at run time; no check imports or runs bionumpy. "
             "Each check decides the structural clauses listed for its property in DESIGN.md section 6 (a PASS is about those clauses for all inputs, not observed behaviour). "
             "Known findings: /verif/known_findings.json. Seeded changes used to test the checks: /verif/seeded/.",
    "not_applicable": na,
}
json.dump(m, open(os.path.join(V, "MANIFEST.json"), "w"), indent=1)
import jsonschema
jsonschema.validate(m, json.load(open("/root/.vp/MANIFEST.schema.json")))
print("MANIFEST ok: claimed", [c["property_id"] for c in checks], "n/a", len(na))
