"""Per-property manifest text (what is claimed, trusted base, technique)."""

_NOTE = ("Trusted base: CPython's ast parser; name-based class/call resolution inside bionumpy (no type inference available offline); "
         "the frozen NumPy/npstructures effect model of DESIGN.md section 4; embedded format specifications where named. "
         "PASS means the listed structural clauses hold on the current tree for every input; it is not an observation of behaviour. ")

CLAIMS = {
    "C06": {
        "text": "Decides, for every byte 0..255 and every alphabet literal constructed in the package (plus synthetic boundary alphabets), that the tables built by "
                "AlphabetEncoding.__init__/_initialize/_encode/_decode accept exactly the alphabet (letters case-insensitively), reject everything else with EncodingError and decode to the "
                "upper-cased text (exhaustive constant evaluation of the table-building source); that the re-targeting guard of as_encoded_array compares alphabets up to and including the "
                "largest code present and cannot fall through silently; that change_encoding is encode-after-decode; that offset encodings are inverse affine maps; and that the ragged shape "
                "object is carried through the type dispatch. This is the right level because the property's quantifier (bytes x predefined alphabets) is a finite domain of source constants.",
        "note": _NOTE + "Not decided: value-level behaviour of npstructures ragged indexing.",
        "technique": "constant evaluation of table initialisers over the finite byte domain + symbolic normal forms of guards (AST)",
    },
}

CLAIMS["C01"] = {
    "text": "Decides, on the statement-level CFG of NumpyFileReader.read_chunk and its helpers, for every file and chunk size at once: (R1) no path lets bytes already read reach "
            "`return None` without being handed to the format parser, raising, or being proven empty; every normal exit after a cut returns the cut buffer; (R2) the seek-back offset is "
            "exactly delivered-size minus read-size (relative seek) or the kept tail is exactly the undelivered suffix, under the right mode guards, the carried tail is re-queued first "
            "and reset after every cut, concatenation keeps read order, end-of-file is a short read; (R3) the end-of-file terminator is appended only at end of file; (R4) every "
            "format's from_raw_buffer hands a prefix slice of the chunk to its buffer; (R5) the chunk stream stops at the first empty chunk only. Path rules are the right level: the "
            "property quantifies over all chunk sizes, and a lost tail is a path in the code, not a value.",
    "note": _NOTE + "Not decided: that each format's cut index is the last complete entry; CRLF and gzip specifics beyond the carry-over structure; equality of parsed values.",
    "technique": "CFG path queries (pending-data discharge, dominance of guards) + linear normal forms of seek/slice arithmetic (AST)",
}

CLAIMS["C14"] = {
    "text": "Decides by constant evaluation that the ASCII complement table and the complement lookup of every DNA alphabet literal map each of A,C,G,T,N (both cases for ASCII) to its "
            "Watson-Crick partner and nothing else, that reverse complement is that lookup reversed along the last axis with the operand's own shape, that all 64 codons translate - through "
            "the index formula read from the code (codon reversal, little-endian base-4 weights, source alphabet order) - to NCBI table 1, that codons are consecutive windows of 3, and that at "
            "every strand selector the '+' side is the forward value; extraction bounds are exactly the interval columns. Exhaustive over the finite letter/codon domains.",
    "note": _NOTE + "Embedded specification: Watson-Crick pairs, NCBI translation table 1. Not decided: row-length preservation of ragged reversal (npstructures).",
    "technique": "constant evaluation of lookup tables against embedded specifications + dataflow-role orientation checks (AST)",
}

CLAIMS["C16"] = {
    "text": "Decides, against the SAM/BAM specification embedded in the checker, that every field getter of the BAM extractor (identified by its position in the getter table = "
            "BamEntry field order) reads the specified offset, width and type, that the derived variable-field offsets (cigar = name + l_read_name, seq = cigar + 4*n_cigar_op, "
            "qual = seq + (l_seq+1)//2, name without NUL) are those of the specification (symbolic normal forms with helper methods inlined), that the 4-bit base code, CIGAR op code, "
            "op/length split, reference-consuming set, nibble order, strand bit, magic and BGZF EOF block equal the specification, that the interval view maps Bed6 fields to the right "
            "BAM fields, that selection/compaction treat starts and ends alike and no reachable method rebinds state behind memoised offsets, that header bytes are replayed from recorded "
            "reads, and (dtype inference) that no arithmetic on a record field is carried out in an 8/16-bit type. Constants against a specification are exactly what static analysis decides.",
    "note": _NOTE + "Embedded specification: SAMv1 section 4.2. Not decided: record chaining across chunk boundaries beyond the chain formula, optional tags, BGZF decompression.",
    "technique": "symbolic normal forms of field getters vs. an embedded format specification + constant evaluation of code tables + dtype-width inference (AST)",
}

CLAIMS["C17"] = {
    "text": "Decides by role analysis that the five .fai columns (NAME, LENGTH, OFFSET, LINEBASES, LINEWIDTH) are given the same roles by the index reader, the FastaIdx field order, "
            "every constructor call, the index builder and every consumer (contig lengths come from LENGTH; the fast interval path looks rows up in label order), and - as symbolic normal "
            "forms over the role symbols - that whole-contig and interval reads use the byte layout the format defines (base i at OFFSET + (i // LINEBASES)*LINEWIDTH + i % LINEBASES; line "
            "terminators deleted at LINEWIDTH*(j+1)-1-(A % LINEBASES), one per crossed break) and that the builder computes OFFSET/LINEBASES/LINEWIDTH/chunk size from line starts and ends, "
            "with later chunks shifted by cumulative byte sizes in the OFFSET column only. These are role and formula agreements visible in the code for every file at once.",
    "note": _NOTE + "Embedded specification: samtools faidx column semantics. Assumes LF line ends for interval reads (one terminator byte per break); CRLF and files without final newline are not decided.",
    "technique": "role/dataflow agreement of table columns + symbolic normal forms of byte arithmetic vs. the format's layout formula (AST)",
}

CLAIMS["C12"] = {
    "text": "Decides on the CFGs of GenomeContext.iter_chromosomes, left_join and SynchedStream.__iter__ that every (name, group) pulled from the grouped data reaches a yield of that group, "
            "a raise, or a branch proving the slot holds its default before it is overwritten or the generator ends; that the walk over the genome order has no early exit and yields exactly "
            "one buffer per contig (group only on a name match, empty table otherwise; trailing contigs emitted to the end of the order); that order-discrepancy and unknown-name raises exist and "
            "test membership in the collection that records ALL visited contigs; that groups are skipped only under the ignored-set test; that the genome context's sets are written only in "
            "its constructor; and that the walked order equals the contigs that have sizes. Silent dropping is a path property of these generators, so a path analysis is the right level.",
    "note": _NOTE + "Not decided: the contiguity precondition of the input, the group-by fast path, equality of per-contig results.",
    "technique": "CFG pending-slot discharge paths + branch-fact dominance + immutability (who-may-write) check (AST)",
}

CLAIMS["C13"] = {
    "text": "Decides that every trim of the last w-1 columns uses the bound -w+1 and treats w == 1 (where the bound would be 0), that the generic k-mer weights, both KmerEncoding.encode "
            "paths and KmerEncoding.to_string implement the little-endian base-|A| number (constant-evaluated for k in 1..4, |A| in 2..5/20 over all codes), that the 2-bit packed path is "
            "chosen exactly for |A| == 4, that the minimizer window algebra composes to the identity and takes a minimum over the k-mer axis, that convolved flat data is re-wrapped with the "
            "shape of the same object that was flattened, that chunked counting covers every value with consecutive non-overlapping chunks, that the motif-score accumulation statement "
            "adds matrix[letter at i+offset][offset] into position i, and that any dict memo in these modules is keyed by everything its value depends on.",
    "note": _NOTE + "Not decided: per-window values on concrete sequences, npstructures ragged slicing, BitArray internals.",
    "technique": "linear forms of slice bounds + constant evaluation of hash/renderer over small finite domains + memo-key dependency analysis (AST)",
}

CLAIMS["C20"] = {
    "text": "Decides the ownership clause for the whole package: a flow-sensitive provenance analysis with interprocedural returns-alias / mutates-parameter summaries (fixpoint over resolved "
            "calls) classifies the base of every in-place write; the computed set of (function, parameter) mutators must be inside a frozen, reasoned allow-list (explicit assignment API, "
            "accumulators, private helpers), every call site of a private mutator must pass memory its caller owns, in-place writes into receiver arrays occur only in listed "
            "setters/initialisers (a write through a local alias of receiver state is flagged), the field views given to parsers are copy-on-write, the functions that write into raw "
            "buffers have no caller, and 22 named public derivations mutate none of their arguments. 'No public function modifies its inputs' is a who-may-write property over all paths, "
            "which a may-alias analysis decides for every input at once.",
    "note": _NOTE + "Unsound direction (stated in evidence): unresolved callees are assumed not to mutate and unknown-kind indices yield 'unknown' (never reported). "
                    "Not decided: equality of repeated results; writes inside npstructures; copy-on-write behaviour of EncodedRaggedArray.copy on views.",
    "technique": "interprocedural may-alias / ownership dataflow with mutator summaries and frozen who-may-write tables (AST)",
}

CLAIMS["C18"] = {
    "text": "Decides that integer digit counts come from an exact integer table lookup (searchsorted side='right' on 10**1..10**18, the table constant-evaluated) and never from a floating "
            "logarithm, that the sign column and the '-' store are aligned with number < 0, that digits are (|x| // 10**k) % 10, that parsing neutralises both '-' and '+' on a private copy "
            "and applies the sign after the digit sum, that float rows are dispatched to the decimal/scientific parsers under complementary masks and stored back under the same mask "
            "(row independence), that the scientific value is mantissa * 10**exponent with the 'e' excluded, that the fixed-width digit matrix is right-aligned (start + width == end, "
            "unclamped) with its padding filled, and that floats print with str(float) and integer lists from per-element strings. These are the structural halves of the conversions; "
            "the numerical exactness of power tables around decimal points is value arithmetic and is not claimed.",
    "note": _NOTE + "Known finding: |int64 min| (np.abs in int64). Not decided: float accuracy, exactness of _build_power_array for decimal points, batch independence beyond mask alignment.",
    "technique": "idiom + symbolic normal forms of the conversion formulas, constant evaluation of the power table (AST)",
}

CLAIMS["C08"] = {
    "text": "Decides the orientation and algebra of the interval operations: merge uses the running maximum of stops, pads by exactly `distance` before and removes the same amount after a "
            "strict next-start > running-stop test under one guard, and builds results from run starts / run ends; every interval sort orders by (chromosome, start, stop) (lexsort keys "
            "read in reverse); intersect is strict, overlap counting clamps at 0, the mask merges sorted intervals, drops empty ones and defaults to False, pileup sums indicator rows; clip and "
            "extend_to_size clamp starts at 0 from below and stops at the contig size from above with '+' keeping the start; Jaccard and Forbes equal a/(a+b+c) and a*N/((a+b)(a+c)) as rational "
            "functions of the contingency cells whose layout is read from the code. Values are touched only through comparisons, clamps and selectors, so these finite orientation facts "
            "are what the per-base definitions require of the code.",
    "note": _NOTE + "Not decided: equality with per-base coverage for the run-length algebra delegated to npstructures; exhaustive small-contig enumeration is a different technique.",
    "technique": "operand-role orientation checks + linear/rational normal forms + guard dominance (AST, CFG)",
}

CLAIMS["C02"] = {
    "text": "Decides by schema analysis that every (text buffer class, dataclass field) pair - 26 buffer classes, ~190 pairs, enumerated through inheritance - has a text parser (table entry, "
            "encoding fallback or a per-column override), that exactly the VCF `position` column is shifted by -1 on read (branch constant == schema index; applied to an owned array) and no "
            "other buffer shifts coordinates, that the SAM / FASTQ / FASTA / GFA fixed layouts agree with their entry types, that the VCF class caches are keyed by everything their value "
            "depends on, that header lines are separated by the format's comment character with push-back of the first data line, and that the field start/end table, column stride, "
            "right-aligned digit matrix and sub-delimiter truncation have the normal forms the formats require. Exhaustiveness and table agreement are exactly what enumeration of the "
            "source decides for all files.",
    "note": _NOTE + "Not decided: digit alignment values, INFO key lookup, genotype encoding values (value-level).",
    "technique": "schema enumeration + handler-table exhaustiveness + constant/normal-form agreement + memo-key dependency analysis (AST)",
}
CLAIMS["C03"] = {
    "text": "Decides that every field type written through the column writer has a formatter (table, encoding fallback, text alternative of a Union; the nested-table alternative of VCF INFO "
            "is a recorded finding), that on the CFG of NpBufferedWriter.write the header write is dominated by `not _header_written` and the not-append test, is followed by the flag on every "
            "path, does not depend on the header's content, precedes record bytes, and that stream cases recurse into the same writer; that VCF POS is written +1 on both write paths on a "
            "replaced copy; that separators are stored before record terminators with the right stride, the FASTQ '+' line and marker offsets are placed as the format says, the FASTA wrapping "
            "formulas satisfy (full lines)*W + last == L with 1 <= last <= W over whole periods; and that modes, gzip and suffixes select the right opener, writer and buffer class.",
    "note": _NOTE + "Known finding: nested INFO table has no formatter. Not decided: float printing precision, equality of read-back tables.",
    "technique": "handler-table exhaustiveness + CFG dominance/post-dominance of the header flag + normal forms of layout arithmetic (AST)",
}

CLAIMS["C04"] = {
    "text": "Decides that the lazy table hands back the original record bytes only when no field was assigned (and the target class is compatible), that in the modified write a field "
            "contributes its new column iff it was assigned and its original text otherwise, that every derivation of an extractor or buffer (selection, concatenation, in-place compaction, "
            "symbolically executed) treats all row-aligned stores alike - same index on every per-row store, cumulative data-size shift on offset-typed stores only, contiguity only if all "
            "operands are contiguous, field starts re-based by exactly the record start's move - that no per-object memo outlives a rebinding of what it read, that trailing columns are "
            "fetched from the entry type's field count to the record end, that record ends come from raw line ends (CRLF records keep their newline when selected), and that deriving a lazy "
            "table never shares or updates the source's overlay. Byte-for-byte write-back of selections is exactly the coherence of these offset tables under every derivation.",
    "note": _NOTE + "Not decided: numeric correctness of offsets on concrete data; CRLF field text.",
    "technique": "aligned-state (typestate of row-aligned stores) comparison of constructor calls + symbolic execution of compaction + CFG guard facts (AST)",
}
CLAIMS["C05"] = {
    "text": "Decides that the lazy table's three row-aligned views (file buffer, field cache, assigned overlay) are treated alike by selection, replace and concatenation, that per-operand "
            "dicts are subscripted only with keys from an intersection of the operands' own dicts, that attribute assignment invalidates the materialised table and the cached field on every "
            "path and is the overlay's only writer, that read() and read_chunk() share one laziness predicate, that the eager get_data and the lazy per-field access of every lazily readable "
            "buffer class (26 bindings) go through the buffer's field accessors with (index, declared type) from the entry type's field order, and - shared with C03/C04/C16 - that written "
            "types have formatters, extractor derivations are aligned and BAM memos are coherent; buffer classes whose make_header reads a context are paired with a get_data that sets it "
            "(BAM is not: recorded finding).",
    "note": _NOTE + "Known findings: eager VCF with typed INFO and eager BAM tables cannot be written. Not decided: value equality of the two parse routes.",
    "technique": "aligned-state and key-provenance analysis of the lazy class + post-dominance of invalidation + sibling call-structure comparison (AST, CFG)",
}

CLAIMS["C15"] = {
    "text": "Decides by exception-flow analysis (per function: the set of possible numbers of line-offset additions carried by a FormatException leaving it; fixpoint over a call graph "
            "that fans attribute calls out over the buffer-class family) that every format error leaving NumpyFileReader.read_chunk, NpDataclassReader.read_chunk and the lazy "
            "ItemGetter.__call__ has had the chunk offset added exactly once (zero for whole-file reads), that the added quantity is the line count before the chunk (counter advanced after "
            "the cut, snapshot before the raw read, raw read outside the handler), that every item getter built over a chunk carries the chunk's start line (the nested INFO getter does not: "
            "recorded finding), that validation dominates buffer construction with the documented line formulas, that the EncodingError conversion raises on every path with the row formula "
            "(side='right'), and - shared with C06 - that characters outside a column's alphabet are rejected for all 256 bytes.",
    "note": _NOTE + "Not decided: the in-chunk row number beyond the conversion formula; column-count irregularities (the delimited _validate is dead code).",
    "technique": "exception-flow abstract interpretation (count lattice {0,1,2+}) over a fanned-out call graph + CFG dominance (AST)",
}

CLAIMS["C10"] = {
    "text": "Decides that coordinate conversion has the forms its definition requires (offsets = cumulative sizes; local >= size rejected; chromosome of a global position by "
            "searchsorted(side='right') - 1; interval starts/stops bounds-checked and shifted by their own chromosome's offset), that values in concatenated coordinates never flow into "
            "boundary-sensitive operations (merge / extend / clip / sort; Geometry.merge_intervals does: recorded finding) while the in-memory merged() goes chromosome by chromosome, that every "
            "clamp in clip / extended_to_size / get_windows takes its size from the per-chromosome lookup of the intervals' own chromosome column, that strand selectors put the forward value on "
            "'+', that every name and self-attribute used in the genomic-data modules (about 300 functions) resolves (three unresolved uses: recorded findings), that sequence extraction looks "
            "index rows up in label order, and - shared with C12 - that the walked contig order equals the contigs with sizes and derived contexts union their ignored sets.",
    "note": _NOTE + "Known findings: Geometry.merge_intervals across chromosome ends, StreamedGeometry.extend_to_size NameError, GenomicData.__getitem__ undefined attributes. "
                    "Not decided: equality with the single-contig operation on concrete data.",
    "technique": "taint (global-coordinate) dataflow + normal forms of conversion formulas + name/attribute resolution over the class hierarchy (AST, CFG)",
}

CLAIMS["C11"] = {
    "text": "Decides the lock-step discipline of the computation graph on the CFG of the node methods (every positional and keyword Node input is asked for the same buffer index; the node's "
            "index advances exactly once after each evaluated buffer and never without one; repeated requests are served from the current buffer; a stream node pulls one chunk per step), the "
            "pairing of mapped functions with combiners read from the registration tables (sum/add, histogram/add-with-equal-edges, mean as (sum, n) with final division; joint reductions "
            "post-process each member on its own; the stand-alone histogram reducer lacks the edge check: recorded finding; bincount pads to the longer vector), the re-chunking generators "
            "(pending-data path rule, one bound on both sides of every cut, emit loop repeats while a full block is buffered, guarded final flush), the group join (chain then re-group on the "
            "key, concatenate in order), the streamable decorator (zip lock step, declared reduction applied) and - shared with C12 - that every contig of the genome order yields one buffer.",
    "note": _NOTE + "Known finding: histogram_reduce adds histograms with different edges. Not decided: numeric equality of reductions; splits inside a group beyond the join structure.",
    "technique": "CFG once/always path rules for the buffer index + table agreement of reducer pairings + pending-data discharge for re-chunking (AST, CFG)",
}

CLAIMS["C19"] = {
    "text": "Decides that every field type of every bnpdataclass in the package (about 40 classes, 200+ fields, enumerated through inheritance) has a branch in the constructor conversion and "
            "that the fall-through raises, that add_fields / extend / sort_by / replace build new tables from all columns (normal forms) and - by the ownership analysis - write into none of "
            "their operands, that todict/from_dict use one separator and nesting rule and rows are zipped across all columns in field order, that no comparison is used as a statement in the "
            "table/array modules (StringArray item assignment really assigns), that class memos are keyed by everything the cached class depends on, that identifier columns concatenate with "
            "NumPy's own width promotion, and - shared with C06 - that constructing an encoded column from differently encoded data either re-targets safely or raises.",
    "note": _NOTE + "Not decided: equal column lengths and row semantics of npstructures' npdataclass; pandas round trips on concrete data.",
    "technique": "schema enumeration + branch exhaustiveness + ownership dataflow + idiom search + memo-key dependency analysis (AST)",
}

CLAIMS["C07"] = {
    "text": "Decides that every result constructor inside EncodedArray / EncodedRaggedArray passes the operand's own encoding (about 20 sites incl. indexing, ravel, reshape, T, copy, "
            "iteration, array functions), that both __array_ufunc__ implementations encode every positional and keyword operand with the array's encoding and forward only equal / "
            "not_equal, that item assignment (plain and ragged) encodes every value - already encoded or not - with the target encoding before storing codes, that copy() copies "
            "unconditionally, that the ragged text helpers reduce per row with all(), that no comparison is used as a statement, and that no ragged shape is captured before a ravel() of the "
            "same object and used after it. The clause 'the encoding of the result is the encoding of the operand' and the operand-conversion discipline are structural.",
    "note": _NOTE + "Not decided: NumPy indexing semantics on ragged views and the resulting values (npstructures).",
    "technique": "constructor-argument dataflow over the class methods + normal forms of the ufunc / assignment paths + statement-order idiom (AST)",
}

CLAIMS["C09"] = {
    "text": "Decides by symbolic length analysis (array lengths as linear forms over the number of records and gaps, propagated through insert / append / slicing) that on all 17 return paths "
            "of GenomicRunLengthArray.from_bedgraph the run-length invariant len(values) == len(events) - 1 holds at the constructor call and that starts and values are extended together, "
            "that from_intervals cuts the values to len(events) - 1 before construction, that the dense expansion reinterprets each float width as the unsigned integer of the same width and "
            "views the result back as the original dtype with the xor-difference / accumulate statements in the form the expansion needs, and that genome-wide ufuncs / array functions unwrap "
            "every genomic operand in operand order and re-wrap with the same genome context, with per-chromosome views sliced [offset, offset + size) in genome order.",
    "note": _NOTE + "Not decided: the dense values themselves and arithmetic results (run-length algebra of npstructures); a change that calls an opaque helper on events/values makes R1 "
                    "unreadable and is reported as ANALYSIS-ERROR, not as a verdict.",
    "technique": "symbolic array lengths (linear forms) with path enumeration + width table / normal-form comparison + operand-order check (AST)",
}

NOT_APPLICABLE = {}


# Clauses added in the second round (rules written after independent seeded changes showed what was not yet decided); see DESIGN.md section 11.
EXTRA = {
    "C01": "Also (R8): the number of bytes requested from the file is never reduced below the caller's chunk size (a zero-byte read is how end of file is recognised); the end-of-file "
           "terminator built from a sample of the pending bytes does not queue the sampled bytes a second time; the multi-line FASTA carriage-return sniff is existential.",
    "C02": "Also (R7): key=value sub-fields (VCF INFO) match a flag only by the exact key (length and all characters) and a valued key by `key=`; values are what follows. (R8) line ends of "
           "line-group formats lose a trailing carriage return per line.",
    "C03": "Also (R6): every non-empty piece of a stream is written (no early exit from the loop over pieces); untouched columns reach the writer through the text accessor, and a column "
           "that the typed accessor converts has a text override for the same test; the header decision precedes the early return for empty data; stale-shape idiom.",
    "C04": "Also (R7-R10, shared clauses): BAM selections are gathered record by record; record and field extents of line-group formats; column accessors do not modify the start/length "
           "tables; untouched columns are supplied as file text.",
    "C05": "Also (R6): every __getitem__ link of the lazy selection chain hands the index on unchanged (no dtype conversion, no i:i+1 window for scalars), and the index tables shared "
           "between a table and its selections are never written in place (ownership analysis, augmented assignments on receiver arrays included).",
    "C06": "Also (R6/R7): equality of alphabet encodings compares the ordered alphabets (not the table of accepted bytes); a list of encoded arrays is accepted only if every element has "
           "the labelled encoding and is joined in order; item assignment re-targets the value first.",
    "C07": "Also: split compares through the encoded `==` (never raw codes with ordinals); ragged text is decoded before it is padded; every return of the np.concatenate / np.where branches "
           "builds a new array; (R6) no memoised function hands a mutable array to callers that return, store or write it.",
    "C08": "Also (R6): the all-vs-all Jaccard matrix cell indices are derived symbolically from the two enumerate() calls; interval functions do not write into their arguments "
           "(provenance analysis restricted to the interval modules).",
    "C09": "Also (R4): dict caches (module- or class-level) are keyed by everything the cached value depends on, including instance state for class-level containers; both branches of "
           "from_bedgraph build events and values from the gap-filled columns.",
    "C10": "Also (R8): bins per chromosome are a ceiling division; genome size sums the very table the global offsets are built from; every table derived from stranded intervals / "
           "locations hands on the strand flag.",
    "C11": "Also (R7): operand-unwrapping comprehensions unwrap the operand itself; compute() writes the k-th result back to the k-th node position; the streamed get_windows computes the "
           "same flanks and columns as its in-memory twin (sibling cross-check).",
    "C12": "Also (R6/R7): group boundaries are positions where the key differs (`!=`), not where it increases; the contig filter is forwarded at every link from Genome constructors to "
           "GenomeContext.from_dict and applied as given; similarity measures consume the synchronised streams in lock-step.",
    "C13": "Also (R7): match_string compares every position (no fixed-width positional hash of an unbounded pattern); a too-short-input guard in rolling_window must be strict.",
    "C14": "Also (R4): dict caches of complement tables are keyed by the ordered alphabet; no value computed on entries taken in a sorted order is indexed by the same permutation again "
           "(inverse permutation required).",
    "C15": "Also (R5/R6, shared): a line with another column count makes the start/end table ragged (reshape(-1, n) raises); the all-missing shortcut of optional numeric columns "
           "quantifies over all values.",
    "C16": "Also (R8/R9): the raw BAM chunk is not trimmed by content before records are located; the header is written before the early return for empty data.",
    "C17": "Also (R4): every fetch returns memory of its own (return provenance is fresh, never a view of a buffer kept on the reader); no single-slot memo filled on first use depends on "
           "an argument of the call.",
    "C18": "Also: float parsing weighs digits with floating-point powers; absolute stores into the power array precede the increments; (R5) the all-missing shortcut quantifies over all "
           "values; (R6) every call site of the in-place decimal parser hands it a copy.",
    "C19": "Also (R7): the same-type guard of add_fields quantifies over all values; list-valued columns are converted with RaggedArray(...) for every non-ragged input (no extra "
           "condition that would exclude the empty list of a 0-row table).",
    "C20": "Also (R6-R8): memoised functions return immutable values or their results never escape (returned further, stored, written in place, or called through a stored bound method); "
           "augmented assignment on non-scalar receiver attributes counts as an in-place write; compaction state and copy() clauses shared with C04/C07.",
}
# third round
EXTRA3 = {
    "C01": "(R9/R10) gather indices of padded text columns are clamped to the last byte of the chunk; chunks joined with np.concatenate are shifted by cumulative sizes (shared C04-R2).",
    "C02": "(R9-R12) number parsing clauses of C18-R2; selection/concatenation tables (C04-R2); late-bound format constants; delta-array idiom; the key match mask is padded behind the matches.",
    "C03": "(R7-R10) selection tables, lazy concatenation (C05-R1), shared tables never written in place, late-bound constants; optional-int formatter writes the missing marker for NaN only; "
           "append mode is recognised for every opener of _get_buffered_file (a gzip file object reports an integer mode).",
    "C04": "(R11-R13) lazy concatenation slots, shared tables never written in place, late-bound constants.",
    "C05": "(R7/R8) format constants are read through cls / self; no mutable default argument is stored or written.",
    "C06": "(R8) text is converted to bytes strictly; alphabet accessors return new lists; dict caches of the module are keyed completely.",
    "C07": "(R7-R9) re-target guard and shape plumbing of C06; join / list formatting of C18-R4; ragged_slice delegates to the npstructures slicer on the flattened text (row counts never bound "
           "flat positions); delta-array idiom.",
    "C08": "(R7) every contig gets a buffer in the synchronised streams (C12-R2); the generic sort path is also read in its column-wise (zip) form.",
    "C09": "(R5/R6) genome size / bins of C10-R8; sorting chromosome names keeps names paired with their sizes; the dense array of a run-length array is new memory.",
    "C10": "(R9) every chromosome is visited by the streamed walk (C12-R1/R2).",
    "C11": "(R7 d-f, R8) streamed and in-memory extraction use the same strand selector; evaluating a buffer writes no node state; every group is labelled with the caller's key; "
           "block-wise counting visits every block (C13-R5).",
    "C12": "(R6+, R2+) ragged keys: length change OR character change; every group is pulled after the ignored-name filter was installed; skipped contigs are filled in a loop.",
    "C13": "(R2+, R8) hash weights are 64-bit for every k; delta-array idiom (row ids by mark-and-cumsum need non-empty rows).",
    "C14": "(R3+, R4+, R5, R6) the reverse-complemented side of a strand selector derives from the same value as the forward side; the in-memory sequence table is looked up by name; indexed "
           "FASTA byte arithmetic (C17-R2); delta-array idiom.",
    "C15": "(R3+, R7) the row formula is selected by the shape of the parsed text; the lazy table's line offset is captured before its chunk is read; validators report without decoding file bytes.",
    "C16": "(R10/R11) chunk carry-over of C01-R2; an all-records-alike shortcut must test the array whose first element it then uses for every record.",
    "C17": "(R1/R2/R3+) read_index and create_index are also read in loop form (the running offset must accumulate); the generic interval path walks the intervals in the order given.",
    "C18": "(R2+, R7) the mask of parsed rows is `length > 0` only; delta-array idiom.",
    "C19": "(R8/R9) lazy tables: concatenation and __replace__ clauses of C05-R1 / C04-R6; no mutable default argument is stored or written.",
    "C20": "(R9) no mutable default argument is stored, returned or written; dataclasses.replace() is a shallow copy (its columns are still the argument's arrays).",
}
EXTRA4 = {
    "C01": "the end-of-file terminator may be sampled from the whole last pending piece, whose whole length is then cut off again.",
    "C02": "(R9+) the sign-less digit-matrix path of the buffer extractor is taken only where no field starts with a sign character the integer parser recognises.",
    "C03": "(R6+) both kinds of stream are written piece by piece and at most EMPTY pieces are skipped.",
    "C04": "(R10+, R14) stream pieces as C03-R6; index forwarding of the lazy selection.",
    "C05": "",
    "C06": "(R4+, R6+) decode of a non-ragged operand passes the codes un-flattened; equality of alphabet encodings compares ordered tables with the length guard the form of comparison needs.",
    "C07": "",
    "C08": "(R1+, R2+, R4+, R8) merge test in the padding-free form must use the running stop; a combined sort key needs a multiplier above every position; clip returns its input untouched only under "
           "element-wise bounds against the row's own contig; geometry helpers use global coordinates.",
    "C09": "(R3+, R7) the sum of a genome-wide array is the run-length array's own sum (no accumulator tied to the values' dtype); ignored contigs immutable, merge clauses of C08-R1.",
    "C10": "(R10) sort keys of genomic intervals and locations (genome order).",
    "C11": "",
    "C12": "(R8, R9) groupby returns a partition of the chunk (row 0 to the last row; a one-row chunk is one group); a table handed to a MultiStream is wrapped unconditionally.",
    "C13": "(R2+, R9, R10) digits of a k-mer code are extracted in integer arithmetic; counts are not written in place; PWM rows, letters and background come from the same key and an encoded "
           "sequence is scored as it is only if its alphabet starts with the matrix alphabet in order.",
    "C14": "",
    "C15": "(R1+) the delivered-lines counter starts at 0 and is written only by the one increment.",
    "C16": "",
    "C17": "(R1+, R3+, R5, R6) every source of the record dict keys by the first word with the reader's roles; the .fai written is the complete index; fetched sequences are put back in the order "
           "asked for; the chunk reader queues only the missing terminator at end of file.",
    "C18": "(R8, R9) copy() copies; the digit fast path excludes every sign character.",
    "C19": "(R2+, R10) a column's row generator iterates the column itself; equality of encodings (C06-R6).",
    "C20": "(R10) the pass-through decision of as_encoded_array rests on a sound equality of encodings.",
}
for _k, _v in EXTRA3.items():
    EXTRA[_k] = EXTRA[_k] + " Third round: " + _v
for _k, _v in EXTRA4.items():
    if _v:
        EXTRA[_k] = EXTRA[_k] + " Fourth round: " + _v
EXTRA7 = {
    "C01": "(R3+) the whole-file read ends its data through the same terminator routine as the chunked read.",
    "C03": "(R12) what was written is read back through the right-aligned digit matrix (clauses of C18-R3).",
    "C06": "(R9) item assignment stores the value's own codes only after re-targeting or under a comparison of the two encodings; codes are re-used under another alphabet only after a positional comparison (membership of letters is a recognised wrong form).",
    "C07": "(R10) an index is cast to an integer array in __getitem__/__setitem__ only for empty lists or non-boolean data; own-codes clause of C06-R9.",
    "C09": "(R8) no first == last shortcut over an ungrouped column; tables indexed by chromosome codes are laid out in encoding-label order, never dict iteration order.",
    "C10": "(R11) compatibility of two genome contexts includes an order-sensitive comparison; first == last shortcut; code-indexed tables.",
    "C11": "(R9) the length test of neighbouring ragged keys is two-sided; order-sensitive context compatibility; dict caches and first == last shortcuts in the stream modules.",
    "C12": "(R10) two-sided length test of ragged keys; dict caches of decoded keys name the encoding object itself (not its class); first == last shortcuts.",
    "C14": "(R8) positional (not membership) comparison before codes are re-used under another alphabet; code-indexed tables in the sequence readers.",
    "C15": "(R8) a sign is neutralised at column 0 only, so a '-' elsewhere stays an invalid digit and is reported.",
    "C17": "(R8) tables indexed by chromosome codes in the FASTA-backed sequence classes are in label order.",
    "C18": "(R12) sign at column 0 only; the join of lazily read chunks computes offsets and data from the same (uncompacted) buffers (C02-R10).",
    "C19": "(R11) a pandas column is converted positionally (no label-based s[i] over range(len(s))); index casts.",
}
for _k, _v in EXTRA7.items():
    EXTRA[_k] = EXTRA[_k] + " Seventh round: " + _v
for _k, _v in EXTRA.items():
    CLAIMS[_k]["text"] += " " + _v + (" (T1) In the functions of the property's anchor files no quantified test flipped between `all` and `any` on the same argument and no "
                                       "parameter that was read is now ignored, relative to the instances confirmed on the reference tree. (T2, observation only) small edits of the property's mechanism functions (operator / bound / constant / name substitution, deleted statement, new early exit) "
                                       "relative to their confirmed form are printed as NOTE lines and recorded in the evidence; they do not change the exit code. T1 decides agreement with the "
                                       "confirmed reference, not the behaviour itself.")
_NF = (" All rules read the source in a comparison normal form (bnpsa/normalize.py): early exits as if/else with un-negated tests, locals and comprehension variables renamed back to "
       "the reference vocabulary, freshly introduced temporaries inlined and inlined reference temporaries re-introduced - every step a semantics-preserving rewrite, so renaming, "
       "temporaries and guard orientation do not change a verdict; statements that differ from the reference only in spelling (message wording, comparison orientation, emptiness tests, "
       "list/tuple literals, annotations) are read in the reference spelling (bnpsa/spelling.py); fresh aliases, consistently renamed private attributes, freshly extracted straight-line helpers and "
       "new optional parameters at their default value are folded back first. Verdict policy: a clause that compares a construct with its confirmed form is a VIOLATION when the function it lies in "
       "is unchanged or differs from its reference form in at most 4 canonical lines; in a function rewritten beyond that the clause cannot tell a new correct formulation from a wrong one and the "
       "check exits 2 (ANALYSIS-ERROR ... cannot follow) - never 0; clauses that establish a necessary structural condition (guard facts, required raises, writers of a counter, ownership / "
       "aliasing, cache keys, recognised wrong forms) are violations regardless (DESIGN.md section 14).")
for _k in CLAIMS:
    CLAIMS[_k]["note"] += _NF
