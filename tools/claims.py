"""Per-property manifest text (what is claimed, trusted base, technique)."""

_NOTE = ("Trusted base: CPython's ast parser; name-based class/call resolution inside bionumpy (no type inference available offline); "
         "the frozen NumPy/npstructures effect model of DESIGN.md section 4; embedded format specifications where named. "
         "PASS means the listed structural clauses hold on the current tree for every input; it is not an observation of behaviour. ")

CLAIMS = {
    "C06": {
        "text": "Decides, for every byte 0..255 and every alphabet literal constructed in the package (plus synthetic boundary alphabets), that the tables built by "
                "AlphabetEncoding.__init__/_initialize/_encode/_decode accept exactly the alphabet (letters case-insensitively), reject everything else with EncodingError and decode to the "
                "upper-cased text (exhaustive constant evaluation of the table-building source); that the re-targeting guard of as_encoded_array compares alphabets up to and including the "
                "largest code present and cannot fall through silently; that change_encoding is encode-after-decode; that offset encodings are inverse affine maps; and that the ragged shape "
                "object is carried through the type dispatch. This is the right level because the property's quantifier (bytes x predefined alphabets) is a finite domain of source constants.",
        "note": _NOTE + "Not decided: value-level behaviour of npstructures ragged indexing.",
        "technique": "constant evaluation of table initialisers over the finite byte domain + symbolic normal forms of guards (AST)",
    },
}

NOT_APPLICABLE = {}
