#!/venv/bin/python
"""Run every check against a scratch copy of /repo/bionumpy with one patch (unified diff, -p1) or one textual replacement applied.  Never touches /repo.
   try_patch.py <patch.diff>            |   try_patch.py --sub <relpath> <old> <new>"""
import contextlib
import importlib
import io
import os
import shutil
import subprocess
import sys
import tempfile

V = os.path.dirname(os.path.dirname(os.path.abspath(__file__)))
sys.path.insert(0, V)
PROPS = [f"C{i:02d}" for i in range(1, 21)]


def run(apply):
    from bnpsa.report import Ctx
    d = tempfile.mkdtemp(prefix="try_", dir="/dev/shm" if os.path.isdir("/dev/shm") else None)
    try:
        shutil.copytree("/repo/bionumpy", os.path.join(d, "bionumpy"), ignore=shutil.ignore_patterns("__pycache__"))
        apply(d)
        out = {}
        for prop in PROPS:
            mod = importlib.import_module(f"bnpsa.rules.{prop.lower()}")
            with contextlib.redirect_stdout(io.StringIO()):
                ctx = Ctx(prop, "quick", d, 0, write=False)
                ctx.run_rules(mod.RULES)
            known = {k.get("key") for k in ctx.known}
            v = [(x["rule"], x["where"], x["what"][:90]) for x in ctx.violations if x.get("key") not in known]
            if v or ctx.analysis_errors:
                out[prop] = (v, ctx.analysis_errors)
        return out
    finally:
        shutil.rmtree(d, ignore_errors=True)


def main():
    a = sys.argv[1:]
    if a[0] == "--sub":
        rel, old, new = a[1], a[2].encode().decode("unicode_escape"), a[3].encode().decode("unicode_escape")

        def ap(d):
            p = os.path.join(d, rel)
            s = open(p).read()
            assert s.count(old) >= 1, "old text not found"
            open(p, "w").write(s.replace(old, new, 1))
    else:
        def ap(d):
            subprocess.run(["patch", "-p1", "-s", "-i", os.path.abspath(a[0])], cwd=d, check=True)
    out = run(ap)
    if not out:
        print("no check reports anything")
    for p, (v, e) in out.items():
        for r in v:
            print(p, "VIOLATION", *r)
        for x in e:
            print(p, "ANALYSIS-ERROR", x[:200])


if __name__ == "__main__":
    main()
