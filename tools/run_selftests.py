import sys, json
sys.path.insert(0,'/verif')
from concurrent.futures import ProcessPoolExecutor
def one(p):
    from bnpsa import selftest
    r = selftest.run_for_property(p, '/repo', 0)
    return p, r
if __name__ == '__main__':
    props = [f"C{i:02d}" for i in range(1,21)]
    with ProcessPoolExecutor(10) as ex:
        tot=0; det=0
        for p, r in ex.map(one, props):
            ms = r.get('mutants', r)
            s = json.dumps(r)[:0]
            print(p, {k:v for k,v in r.items() if k not in ('results','mutants','details')})
            for m in r.get('results', r.get('details', [])):
                if not m.get('detected', m.get('fired')):
                    print('   MISS', m)
