import bionumpy as bnp, numpy as np
from bionumpy.io.delimited_buffers import Bed12Buffer
txt = "chr1\t10\t100\tn1\t0\t+\t10\t100\t0,0,0\t2\t5,6\t0,50\nchr2\t10\t100\tn2\t0\t-\t10\t100\t0,0,0\t2\t7,8\t0,40\n"
open("a.bed","w").write(txt)
f = bnp.open("a.bed", buffer_type=Bed12Buffer)
d = f.read()
print(type(d))
print(d.block_sizes)
with bnp.open("out.bed","w", buffer_type=Bed12Buffer) as w:
    w.write(d)
print(repr(open("out.bed").read()))
print(open("out.bed").read()==txt)
