import struct, numpy as np
import bionumpy as bnp
from bionumpy.io.bam import BamBuffer
class H: info=[("chr1",1000000)]
def rec(name, ncig, seq_len):
    nm = name.encode()+b"\0"
    cig = b"".join(struct.pack("<I", (1<<4)|0) for _ in range(ncig))   # 1M each
    seq = bytes([0x11]*((seq_len+1)//2)); qual = bytes([30]*seq_len)
    body = struct.pack("<iiBBHHHIiii", 0, 5, len(nm), 7, 0, ncig, 0, seq_len, -1, -1, 0)+nm+cig+seq+qual
    return struct.pack("<i", len(body))+body
for n in (100, 16383, 16384, 20000):
    raw = np.frombuffer(rec("r1", n, n)+rec("r2", 2, 2), dtype=np.uint8)
    b = BamBuffer.from_raw_buffer(raw, H())
    try:
        d = b.get_data()
        print(n, "cigar ops decoded:", len(d.cigar_op[0]), "seq len:", len(d.sequence[0]), "qual0:", d.quality[0][:3])
    except Exception as e:
        print(n, "EXC", type(e).__name__, str(e)[:100])
