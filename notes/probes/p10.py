import warnings; warnings.filterwarnings("ignore")
import logging; logging.disable(logging.CRITICAL)
import bionumpy as bnp, numpy as np, os
open("b.bed","w").write("chr1\t1\t2\nchr1\t3\t4\nchr2\t5\t6\n")
for lazy in (True, False):
    a = bnp.open("b.bed", lazy=lazy).read(); b = bnp.open("b.bed", lazy=lazy).read()
    _ = a.start
    try:
        c = np.concatenate([a, b]); print(lazy, 'concat ok', c.start)
    except Exception as e:
        print(lazy, 'concat raised', type(e).__name__, e)
# setattr after materialise
for lazy in (True, False):
    a = bnp.open("b.bed", lazy=lazy).read()
    _ = a.tolist()
    a.start = np.array([7,8,9])
    print(lazy, [r.start for r in a.tolist()])
# BAM
fn = "/repo/example_data/test.bam"
for lazy in (True, False):
    t = bnp.open(fn, lazy=lazy).read()
    m = np.arange(len(t)) % 2 == 1
    s = t[m]
    n1 = s.name.tolist()[:2]
    with bnp.open(f"o{lazy}.bam", "w") as w: w.write(s)
    print(lazy, n1, s.sequence.tolist()[:1] == t.sequence[m].tolist()[:1], s.position[:3], t.position[m][:3])
