import bionumpy as bnp, tempfile, os
vcf = ("##fileformat=VCFv4.2\n##INFO=<ID=DP,Number=1,Type=Integer,Description=\"d\">\n"
       "#CHROM\tPOS\tID\tREF\tALT\tQUAL\tFILTER\tINFO\nchr1\t5\t.\tA\tC\t.\t.\tDP=3\nchr1\t9\t.\tG\tT\t.\t.\tDP=7\n")
d = tempfile.mkdtemp(); p = os.path.join(d, "a.vcf"); open(p, "w").write(vcf)
for lazy in (True, False):
    t = bnp.open(p, lazy=lazy).read()
    out = os.path.join(d, f"o{lazy}.vcf")
    try:
        with bnp.open(out, "w") as w: w.write(t)
        print("lazy", lazy, "wrote", repr(open(out).read().splitlines()[-1]))
    except Exception as e:
        print("lazy", lazy, "FAILED", type(e).__name__, str(e)[:80])
