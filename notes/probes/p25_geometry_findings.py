import bionumpy as bnp, numpy as np
from bionumpy.genomic_data.geometry import StreamedGeometry, Geometry
from bionumpy.datatypes import Interval, StrandedInterval
sizes = {"chr1": 10, "chr2": 10}
try:
    sg = StreamedGeometry(sizes)
    out = sg.extend_to_size(iter([StrandedInterval(["chr1"], [1], [2], ["+"])]), 3)
    print("streamed extend ok", out)
except Exception as e:
    print("StreamedGeometry.extend_to_size:", type(e).__name__, e)
g = Geometry(sizes)
try:
    print(g.merge_intervals(Interval(["chr1", "chr2"], [5, 0], [10, 5])))
except Exception as e:
    print("Geometry.merge_intervals across boundary:", type(e).__name__, str(e)[:80])
