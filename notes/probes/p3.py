import warnings; warnings.filterwarnings("ignore")
import bionumpy as bnp, numpy as np
from bionumpy.streams import NpDataclassStream
from bionumpy.datatypes import Interval
g = bnp.Genome.from_dict({'chr1': 20, 'chr1_alt': 10, 'chr2': 10})
def stream2():
    return NpDataclassStream(iter([Interval(['chr1','chr1'],[0,5],[3,8]), Interval(['chr2'],[1],[4]), Interval(['chr1_alt'],[1],[4])]), dataclass=Interval)
print('streamed', bnp.compute(g.get_intervals(stream2()).get_mask().sum()))
allint = np.concatenate(list(stream2()))
print('inmem', g.get_intervals(allint).get_mask().sum())
# wrong order, does the consumer pull one more?
g2 = bnp.Genome.from_dict({'chr1': 20, 'chr2': 10, 'chr3': 10})
def stream3():
    return NpDataclassStream(iter([Interval(['chr1','chr1'],[0,5],[3,8]), Interval(['chr3'],[1],[4]), Interval(['chr2'],[1],[4])]), dataclass=Interval)
try:
    print('streamed wrong order', bnp.compute(g2.get_intervals(stream3()).get_mask().sum()))
except Exception as e:
    print('raised', type(e), e)
