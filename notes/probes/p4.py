import warnings; warnings.filterwarnings("ignore")
import bionumpy as bnp, numpy as np
from bionumpy.datatypes import Interval
g = bnp.Genome.from_dict({'chr1': 10, 'chr2': 10})
gi = g.get_intervals(Interval(['chr1','chr1','chr2'],[1,5,0],[3,10,5]))
for d in (0, 1):
    try:
        print(d, gi.merged(d))
    except Exception as e:
        print(d, 'raised', type(e).__name__, e)
