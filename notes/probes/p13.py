import warnings; warnings.filterwarnings("ignore")
import logging; logging.disable(logging.CRITICAL)
import bionumpy as bnp, numpy as np
from bionumpy.io.vcf_buffers import VCFBuffer, VCFMatrixBuffer, PhasedVCFMatrixBuffer, VCFWithInfoAsStringBuffer
hdr = '##fileformat=VCFv4.1\n##INFO=<ID=AC,Number=1,Type=Integer,Description="x">\n#CHROM\tPOS\tID\tREF\tALT\tQUAL\tFILTER\tINFO\tFORMAT\ts1\ts2\n'
body = "chr1\t10\t.\tA\tC\t.\t.\tAC=1\tGT\t0|1\t1|1\nchr1\t12\t.\tG\tT\t.\tPASS\tAC=2\tGT\t0|0\t1|0\n"
open("g.vcf","w").write(hdr+body)
import sys
order = sys.argv[1]
def rd(bt):
    d = bnp.open("g.vcf", buffer_type=bt, lazy=False).read()
    return type(d).__name__, [f for f in d.__dataclass_fields__]
if order == 'a':
    print(rd(VCFBuffer)); print(rd(PhasedVCFMatrixBuffer))
else:
    print(rd(PhasedVCFMatrixBuffer)); print(rd(VCFBuffer))
