import warnings; warnings.filterwarnings("ignore")
import logging; logging.disable(logging.CRITICAL)
import bionumpy as bnp, numpy as np
from bionumpy.io.strops import ints_to_strings, str_to_int, str_to_float
vals = np.array([0, 9, 10, 99, 100, 999999999999999, 10**15, 10**15-1, 10**17-1, 10**18-1, 10**18, 2**63-1, -2**63, -1, -10], dtype=np.int64)
try:
    out = ints_to_strings(vals).tolist()
    for v, o in zip(vals.tolist(), out):
        if str(v) != o: print('INT FORMAT MISMATCH', v, repr(o))
except Exception as e:
    print('raised', type(e).__name__, e)
for sub in ([10**15-1],[10**17-1],[10**18-1],[2**63-1],[-2**63]):
    try:
        o = ints_to_strings(np.array(sub, dtype=np.int64)).tolist()
        print(sub, o, o[0]==str(sub[0]))
    except Exception as e: print(sub, 'raised', type(e).__name__, e)
print(str_to_int(bnp.as_encoded_array(["+5","-12","007","9223372036854775807"])))
# sort_intervals
from bionumpy.datatypes import Interval
from bionumpy.encodings.string_encodings import StringEncoding
from bionumpy.arithmetics import sort_intervals
enc = StringEncoding(["chr1","chr2"])
iv = Interval(enc.encode(["chr2","chr1","chr1"]), [1,5,5],[9,8,6])
s = sort_intervals(iv); print(s.start, s.stop)
iv2 = Interval(["chr2","chr1","chr1"], [1,5,5],[9,8,6])
s = sort_intervals(iv2); print(s.start, s.stop)
# histogram
from bionumpy.streams import BnpStream
a = np.array([1,2,3,10]); b = np.array([4,5,100])
print(bnp.histogram(BnpStream(iter([a,b])), bins=3), np.histogram(np.concatenate([a,b]), bins=3))
