import warnings; warnings.filterwarnings("ignore")
import bionumpy as bnp, numpy as np, os
hdr = "##fileformat=VCFv4.1\n#CHROM\tPOS\tID\tREF\tALT\tQUAL\tFILTER\tINFO\n"
body = "chr1\t10\t.\tA\tC\t.\t.\tAC=1\nchr1\t12\t.\tG\tT\t.\tPASS\tAC=2\n"
open("a.vcf","w").write(hdr+body)
for lazy in (True, False):
    d = bnp.open("a.vcf", lazy=lazy).read()
    try:
        with bnp.open(f"o{lazy}.vcf","w") as w: w.write(d)
        print(lazy, repr(open(f"o{lazy}.vcf").read()))
    except Exception as e:
        import traceback; print(lazy, 'raised', type(e).__name__, e)
# constructed
from bionumpy.datatypes import VCFEntry
v = VCFEntry(['chr1'],[9],['.'],['A'],['C'],['.'],['.'],['AC=1'])
try:
    with bnp.open("o3.vcf","w") as w: w.write(v)
    print(repr(open("o3.vcf").read()))
except Exception as e:
    print('constructed raised', type(e).__name__, e)
