import warnings; warnings.filterwarnings("ignore")
import logging; logging.disable(logging.CRITICAL)
import bionumpy as bnp, numpy as np, glob
for fn in glob.glob('/repo/example_data/*.bam'):
    t = bnp.open(fn, lazy=False).read()
    un = (t.flag & 4) > 0
    print(fn, len(t), un.sum())
    if un.sum():
        b = bnp.open(fn).read()
        ext = b._itemgetter.buffer._buffer_extractor
        rid = ext._get_ints(4,4,np.int32)
        print(' refid -1 count', (rid==-1).sum(), ' names for those:', set(t.chromosome[rid==-1].tolist()))
