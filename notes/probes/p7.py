import warnings; warnings.filterwarnings("ignore")
import bionumpy as bnp, numpy as np, os
open("t.fa","w").write(">a desc\nACGTA\nCGTAC\nGT\n>b\nAC\n")
if os.path.exists("t.fa.fai"): os.remove("t.fa.fai")
f = bnp.open_indexed("t.fa")
print(open("t.fa.fai").read())
print(f.get_contig_lengths())
print(f["a"].to_string(), f["b"].to_string())
