import numpy as np
from bionumpy.streams.chunk_entries import chunk_entries
from bionumpy.streams import BnpStream
from bionumpy.datatypes import Interval
def mk(a, b): return Interval(["chr1"]*(b-a), list(range(a, b)), list(range(a+1, b+1)))
for sizes in ([7], [1, 6], [4, 1, 2], [2, 2, 2, 1]):
    chunks, s = [], 0
    for k in sizes:
        chunks.append(mk(s, s+k)); s += k
    out = [len(c) for c in chunk_entries(BnpStream(iter(chunks)), 2)]
    print(sizes, "->", out)
