import bionumpy as bnp, tempfile, os
d = tempfile.mkdtemp()
src = os.path.join(d, "a.bed"); raw = b"chr1\t1\t2\r\nchr1\t3\t4\r\nchr2\t5\t6\r\n"; open(src, "wb").write(raw)
t = bnp.open(src).read()
for name, sel in (("all", t), ("t[[0,2]]", t[[0, 2]]), ("t[1:]", t[1:])):
    out = os.path.join(d, "o.bed")
    with bnp.open(out, "w") as w: w.write(sel)
    print(name, repr(open(out, "rb").read()))
