import warnings; warnings.filterwarnings("ignore")
import logging; logging.disable(logging.CRITICAL)
import bionumpy as bnp, numpy as np
from bionumpy.genomic_data.geometry import Geometry
from bionumpy.datatypes import Interval
g = Geometry({'chr1':10,'chr2':10})
for iv in (Interval(['chr1','chr2'],[5,0],[10,5]), Interval(['chr1','chr2'],[5,1],[9,5])):
    for d in (0, 2):
        try:
            r = g.merge_intervals(iv, d); print(d, r.chromosome.tolist() if hasattr(r.chromosome,'tolist') else r.chromosome, r.start, r.stop)
        except Exception as e:
            print(d, 'raised', type(e).__name__, str(e)[:80])
# INFO duplicate key line number in chunked lazy read
hdr = '##fileformat=VCFv4.1\n##INFO=<ID=AC,Number=1,Type=Integer,Description="x">\n#CHROM\tPOS\tID\tREF\tALT\tQUAL\tFILTER\tINFO\n'
rows = ["chr1\t%d\t.\tA\tC\t.\t.\tAC=1\n" % (i+1) for i in range(6)]
rows[4] = "chr1\t5\t.\tA\tC\t.\t.\tAC=1;AC=2\n"
open("dup.vcf","w").write(hdr+"".join(rows))
for k in (1000, 40):
    try:
        for ch in bnp.open("dup.vcf").read_chunks(min_chunk_size=k):
            _ = ch.info.AC
        print(k, 'no error')
    except Exception as e:
        print(k, type(e).__name__, getattr(e,'line_number',None), getattr(e.__cause__,'line_number',None))
