import warnings; warnings.filterwarnings("ignore")
import logging; logging.disable(logging.CRITICAL)
import bionumpy as bnp, numpy as np, os, gzip, io
from bionumpy.io.parser import NumpyFileReader
from bionumpy.io.npdataclassreader import NpDataclassReader
from bionumpy.io.delimited_buffers import BedBuffer
from bionumpy.io.fastq_buffer import FastQBuffer
from bionumpy.io.multiline_buffer import MultiLineFastaBuffer
from bionumpy.io.one_line_buffer import TwoLineFastaBuffer
def run(data, bt, k, gz, lazy):
    if gz:
        f = gzip.GzipFile(fileobj=io.BytesIO(gzip.compress(data)))
    else:
        f = io.BytesIO(data)
    r = NumpyFileReader(f, bt)
    if gz: r.set_prepend_mode()
    rd = NpDataclassReader(r, lazy=lazy)
    chunks = list(rd.read_chunks(min_chunk_size=k))
    return sum(len(c) for c in chunks)
cases = {
 'bed': (b"chr1\t1\t2\nchr1\t3\t4\nchr2\t5\t6", BedBuffer, 3),
 'bednl': (b"chr1\t1\t2\nchr1\t3\t4\nchr2\t5\t6\n", BedBuffer, 3),
 'fq': (b"@a\nAC\n+\n!!\n@b\nG\n+\n!", FastQBuffer, 2),
 'fa2': (b">a\nAC\n>b\nG", TwoLineFastaBuffer, 2),
 'mfa': (b">a\nAC\nGT\n>b\nG", MultiLineFastaBuffer, 2),
}
for name,(data,bt,n) in cases.items():
    bad = []
    for gz in (False, True):
        for lazy in (False,):
            for k in range(1, len(data)+3):
                try:
                    got = run(data, bt, k, gz, lazy)
                    if got != n: bad.append((gz,k,got))
                except Exception as e:
                    pass
    print(name, 'LOSS cases (gz,k,got):', bad)
