import warnings; warnings.filterwarnings("ignore")
import bionumpy as bnp, numpy as np
from bionumpy.streams import NpDataclassStream
from bionumpy.datatypes import Interval
g = bnp.Genome.from_dict({'chr1': 20, 'chr1_alt': 10, 'chr2': 10})
print(g.get_genome_context()._included, list(g.get_genome_context().chromosome_order()))
def stream():
    return NpDataclassStream(iter([Interval(['chr1','chr1'],[0,5],[3,8]), Interval(['chr1_alt'],[1],[4]), Interval(['chr2'],[1],[4])]), dataclass=Interval)
gi = g.get_intervals(stream())
m = gi.get_mask()
print(bnp.compute(m.sum()))
# in-memory
allint = np.concatenate(list(stream()))
print(g.get_intervals(allint).get_mask().sum())
# leftover at the end
def stream2():
    return NpDataclassStream(iter([Interval(['chr1','chr1'],[0,5],[3,8]), Interval(['chr2'],[1],[4]), Interval(['chr1_alt'],[1],[4])]), dataclass=Interval)
print(bnp.compute(g.get_intervals(stream2()).get_mask().sum()))
