import warnings; warnings.filterwarnings("ignore")
import bionumpy as bnp, numpy as np
from bionumpy.streams import NpDataclassStream
from bionumpy.datatypes import Interval
g = bnp.Genome.from_dict({'chr1': 20, 'chr1_alt': 5, 'chr2': 10})
def stream():
    return NpDataclassStream(iter([Interval(['chr1','chr1'],[0,5],[3,8]), Interval(['chr2'],[1],[4])]), dataclass=Interval)
gi = g.get_intervals(stream())
p = gi.get_pileup()
print('streamed pileup sum/size', bnp.compute(p.sum()))
h = np.histogram(gi.get_pileup() if False else g.get_intervals(stream()).get_pileup(), bins=3, range=(0,3))
print('streamed hist', bnp.compute(h))
allint = np.concatenate(list(stream()))
pm = g.get_intervals(allint).get_pileup()
print('inmem hist', np.histogram(pm, bins=3, range=(0,3)))
