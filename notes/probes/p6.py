import warnings; warnings.filterwarnings("ignore")
import bionumpy as bnp, numpy as np
seqs = bnp.as_encoded_array(["ACTG", "AAA", "T", "", "TTGGC"], bnp.DNAEncoding)
for k in (1,2,3):
    try:
        r = bnp.sequence.get_kmers(seqs, k)
        print(k, [ [bnp.encodings.kmer_encodings.KmerEncoding(bnp.DNAEncoding,k).to_string(int(x)) for x in row.raw()] for row in r])
    except Exception as e:
        print(k, 'raised', type(e).__name__, e)
aa = bnp.as_encoded_array(["ACD", "AA", "W"], bnp.encodings.AminoAcidEncoding)
for k in (1,2):
    try:
        r = bnp.sequence.get_kmers(aa, k)
        print('aa', k, r.tolist() if hasattr(r,'tolist') else r)
    except Exception as e:
        print('aa', k, 'raised', type(e).__name__, e)
try:
    print(bnp.sequence.get_minimizers(seqs, 1, 1))
except Exception as e:
    print('min raised', type(e).__name__, e)
print(repr(bnp.sequence.get_reverse_complement(bnp.as_encoded_array("acgtn")).to_string()))
print(repr(bnp.sequence.get_reverse_complement(bnp.as_encoded_array("ACGTN")).to_string()))
print(repr(bnp.sequence.get_reverse_complement(bnp.as_encoded_array(["acgtn","AC"], bnp.encodings.ACGTnEncoding)).tolist()))
# alphabet acceptance
for enc, s in ((bnp.encodings.AminoAcidEncoding,"J"),(bnp.encodings.alphabet_encoding.DigitEncoding,"PQ"),(bnp.encodings.StrandEncoding,"KMN"),(bnp.encodings.BamEncoding,"]")):
    try:
        e = bnp.as_encoded_array(s, enc); print(s, '->', e.to_string())
    except Exception as ex:
        print(s, 'raised', type(ex).__name__)
# retarget
from bionumpy.encodings.alphabet_encoding import ACGTEncoding, ACTGEncoding
a = bnp.as_encoded_array("ACG", ACGTEncoding)
print(bnp.as_encoded_array(a, ACTGEncoding).to_string())
